//! Discrete-event core: virtual clock, virtual timers (behind rxRust's
//! `NEW_TIMER_FN` seam), the simulated executor (behind `futures::task::
//! {LocalSpawn, Spawn}` and rxRust's `Verif*Scheduler`), the per-thread
//! simulation context and the `verif_hooks` table.

use futures::task::{FutureObj, LocalFutureObj, LocalSpawn, Spawn, SpawnError};
use once_cell::sync::OnceCell;
use rxrust::verif_hooks::{self, Site};
use std::{
  cell::RefCell,
  collections::{BinaryHeap, VecDeque},
  future::Future,
  pin::Pin,
  rc::Rc,
  sync::{
    atomic::{AtomicBool, AtomicU64, Ordering::SeqCst},
    Arc, Mutex, Weak,
  },
  task::{Context, Poll, Wake, Waker},
  time::{Duration, Instant},
};

use crate::threadsim::TSim;

pub const MS: u64 = 1_000_000;

// ---------------------------------------------------------------- shared

#[derive(Default)]
pub struct Stats {
  pub locks: AtomicU64,
  pub timers_created: AtomicU64,
  pub timers_fired: AtomicU64,
  pub tasks_spawned: AtomicU64,
  pub tasks_polled: AtomicU64,
  pub multi_ready_decisions: AtomicU64,
  pub clock_jumps_over_2: AtomicU64,
  /// timer creations during which scripted time passed (fault)
  pub clock_creeps: AtomicU64,
  /// value of the global event sequence at each task spawn
  pub spawn_stamps: Mutex<Vec<u64>>,
}

/// State of one run that may be touched from wakers and timer futures, i.e.
/// must be `Send + Sync`.
pub struct Shared {
  pub clock: AtomicU64, // ns
  pub seq: AtomicU64,   // global event sequence number
  woken: Mutex<Vec<usize>>,
  timers: Mutex<TimerHeap>,
  pub stats: Stats,
}

#[derive(Default)]
struct TimerHeap {
  heap: BinaryHeap<TimerEntry>,
  next_seq: u64,
}

struct TimerEntry {
  deadline: u64,
  seq: u64,
  cell: Weak<TimerCell>,
}
impl PartialEq for TimerEntry {
  fn eq(&self, o: &Self) -> bool {
    self.deadline == o.deadline && self.seq == o.seq
  }
}
impl Eq for TimerEntry {}
impl PartialOrd for TimerEntry {
  fn partial_cmp(&self, o: &Self) -> Option<std::cmp::Ordering> {
    Some(self.cmp(o))
  }
}
impl Ord for TimerEntry {
  // BinaryHeap is a max-heap: reverse so the earliest (deadline, seq) is on top
  fn cmp(&self, o: &Self) -> std::cmp::Ordering {
    (o.deadline, o.seq).cmp(&(self.deadline, self.seq))
  }
}

pub struct TimerCell {
  deadline: u64,
  waker: Mutex<Option<Waker>>,
}

/// The future handed to rxRust by `NEW_TIMER_FN`. Deadline fixed at creation
/// (as async-io's `Timer::after`), ready iff the virtual clock has reached it.
pub struct SimTimer {
  cell: Arc<TimerCell>,
  shared: Arc<Shared>,
}

impl Future for SimTimer {
  type Output = ();
  fn poll(self: Pin<&mut Self>, cx: &mut Context<'_>) -> Poll<()> {
    if self.cell.deadline != NEVER && self.shared.clock.load(SeqCst) >= self.cell.deadline {
      Poll::Ready(())
    } else {
      *self.cell.waker.lock().unwrap() = Some(cx.waker().clone());
      Poll::Pending
    }
  }
}

thread_local! {
  /// nanoseconds that pass inside the next timer creations (consumed in order)
  pub static CREEP: RefCell<std::collections::VecDeque<u64>> = const { RefCell::new(std::collections::VecDeque::new()) };
}
pub fn set_creep(ns: &[u64]) {
  CREEP.with(|c| *c.borrow_mut() = ns.iter().copied().collect());
}

/// deadline of a timer whose duration is beyond the clock's range
pub const NEVER: u64 = u64::MAX;

/// Durations at which a truncating integer conversion somewhere between the
/// caller and the timer would wrap: 2^32 us (71.6 min), 2^32 ms (49.7 days),
/// 2^32 s (136 years), 2^64 ns (584 years; beyond the simulated clock: never
/// due). Free on a virtual clock.
pub fn far_base(k: u8) -> Duration {
  match k {
    1 => Duration::from_micros(1 << 32),
    2 => Duration::from_millis(1 << 32),
    3 => Duration::from_secs(1 << 32),
    _ => Duration::from_nanos(u64::MAX) + Duration::from_nanos(1),
  }
}
/// `d` in simulated nanoseconds (NEVER if it does not fit)
pub fn sim_ns(d: Duration) -> u64 {
  u64::try_from(d.as_nanos()).unwrap_or(NEVER)
}

impl Shared {
  pub fn new() -> Arc<Self> {
    Arc::new(Shared {
      clock: AtomicU64::new(0),
      seq: AtomicU64::new(0),
      woken: Mutex::new(Vec::new()),
      timers: Mutex::new(TimerHeap::default()),
      stats: Stats::default(),
    })
  }

  #[inline]
  pub fn now(&self) -> u64 {
    self.clock.load(SeqCst)
  }

  #[inline]
  pub fn stamp(&self) -> u64 {
    self.seq.fetch_add(1, SeqCst)
  }

  pub fn new_timer(self: &Arc<Self>, dur: Duration) -> SimTimer {
    if self.stats.timers_created.fetch_add(1, SeqCst) > 2_000_000 {
      // library code is spinning without ever yielding to the executor
      // (checked before any lock is taken: a panic must not poison the heap)
      std::panic::panic_any(SimAbort::WouldHang);
    }
    // a duration that does not fit the 64-bit nanosecond clock (584 years and
    // more) is a timer that never falls due: deadline NEVER, ignored by
    // `next_deadline`
    let deadline = u64::try_from(dur.as_nanos()).ok().and_then(|d| self.now().checked_add(d)).unwrap_or(NEVER);
    let cell = Arc::new(TimerCell { deadline, waker: Mutex::new(None) });
    let mut th = self.timers.lock().unwrap();
    let seq = th.next_seq;
    th.next_seq += 1;
    th.heap.push(TimerEntry { deadline, seq, cell: Arc::downgrade(&cell) });
    drop(th);
    // fault: the real clock does not stand still between the creation of a
    // timer and its first poll; a scripted amount of time passes right here
    let creep = CREEP.with(|c| c.borrow_mut().pop_front()).unwrap_or(0);
    if creep > 0 {
      self.stats.clock_creeps.fetch_add(1, SeqCst);
      self.advance_to(self.now().saturating_add(creep));
    }
    SimTimer { cell, shared: self.clone() }
  }

  /// Earliest deadline of a timer that is still owned by somebody.
  pub fn next_deadline(&self) -> Option<u64> {
    let mut th = self.timers.lock().unwrap();
    while let Some(top) = th.heap.peek() {
      if top.cell.strong_count() == 0 {
        th.heap.pop();
      } else if top.deadline == NEVER {
        return None;
      } else {
        return Some(top.deadline);
      }
    }
    None
  }

  /// number of armed timers still owned by somebody
  pub fn live_timers(&self) -> usize {
    let th = self.timers.lock().unwrap();
    th.heap.iter().filter(|e| e.cell.strong_count() > 0).count()
  }

  /// Move the clock to `t` (never backwards) and fire every timer that is due,
  /// in (deadline, creation) order. Returns the number of distinct deadlines
  /// passed.
  pub fn advance_to(&self, t: u64) -> usize {
    // the clock stops one tick short of NEVER: a timer that is never due stays so
    let t = t.min(NEVER - 1);
    if t > self.now() {
      self.clock.store(t, SeqCst);
    }
    let now = self.now();
    let mut due = Vec::new();
    {
      let mut th = self.timers.lock().unwrap();
      while let Some(top) = th.heap.peek() {
        if top.deadline <= now {
          let e = th.heap.pop().unwrap();
          if let Some(c) = e.cell.upgrade() {
            due.push(c);
          }
        } else {
          break;
        }
      }
    }
    let mut distinct = 0;
    let mut last = None;
    for c in due {
      if last != Some(c.deadline) {
        distinct += 1;
        last = Some(c.deadline);
      }
      self.stats.timers_fired.fetch_add(1, SeqCst);
      let w = c.waker.lock().unwrap().take();
      if let Some(w) = w {
        w.wake();
      }
    }
    if distinct >= 2 {
      self.stats.clock_jumps_over_2.fetch_add(1, SeqCst);
    }
    distinct
  }

  pub fn take_woken(&self) -> Vec<usize> {
    std::mem::take(&mut *self.woken.lock().unwrap())
  }
}

pub struct TaskWaker {
  pub id: usize,
  pub shared: Arc<Shared>,
}

impl Wake for TaskWaker {
  fn wake(self: Arc<Self>) {
    self.shared.woken.lock().unwrap().push(self.id);
  }
  fn wake_by_ref(self: &Arc<Self>) {
    self.shared.woken.lock().unwrap().push(self.id);
  }
}

// ------------------------------------------------------------- DES executor

struct Slot {
  fut: Option<LocalFutureObj<'static, ()>>,
  queued: bool,
  polling: bool,
  done: bool,
}

/// Single-threaded simulated executor. Which ready task runs next is the
/// caller's (i.e. the scenario's action list's) decision.
#[derive(Default)]
pub struct LocalExec {
  slots: RefCell<Vec<Slot>>,
  ready: RefCell<VecDeque<usize>>,
  /// spawned since the executor last ran; like `LocalPool`'s `incoming` they
  /// join the run queue - behind everything woken meanwhile - when it runs
  incoming: RefCell<Vec<usize>>,
}

impl LocalExec {
  fn spawn(&self, fut: LocalFutureObj<'static, ()>, shared: &Shared) {
    let _ = shared;
    let mut slots = self.slots.borrow_mut();
    let id = slots.len();
    slots.push(Slot { fut: Some(fut), queued: true, polling: false, done: false });
    self.incoming.borrow_mut().push(id);
  }

  fn absorb_woken(&self, shared: &Shared) {
    self.absorb_woken_only(shared);
    let inc: Vec<usize> = std::mem::take(&mut *self.incoming.borrow_mut());
    self.ready.borrow_mut().extend(inc);
  }

  fn absorb_woken_only(&self, shared: &Shared) {
    for id in shared.take_woken() {
      let mut slots = self.slots.borrow_mut();
      if let Some(s) = slots.get_mut(id) {
        if !s.done && !s.queued {
          s.queued = true;
          self.ready.borrow_mut().push_back(id);
        }
      }
    }
  }
}

// ------------------------------------------------------------------ context

#[derive(Clone)]
pub enum Mode {
  /// single simulated thread (DES, or set-up / tear-down phase of a thread run)
  Des(Rc<LocalExec>),
  /// one of the baton-scheduled threads of a thread-mode run
  Thread(Arc<TSim>, usize),
}

#[derive(Clone)]
pub struct Ctx {
  pub shared: Arc<Shared>,
  pub mode: Mode,
}

thread_local! {
  static CTX: RefCell<Option<Ctx>> = const { RefCell::new(None) };
  /// fidelity self-test only: local spawns are forwarded to a real
  /// `futures::executor::LocalPool` instead of the simulated executor
  static REAL_POOL: RefCell<Option<futures::executor::LocalSpawner>> = const { RefCell::new(None) };
}

pub fn set_real_pool(s: Option<futures::executor::LocalSpawner>) {
  REAL_POOL.with(|p| *p.borrow_mut() = s);
}

pub fn ctx() -> Option<Ctx> {
  CTX.with(|c| c.borrow().clone())
}

pub fn shared() -> Arc<Shared> {
  CTX.with(|c| c.borrow().as_ref().expect("no simulation context").shared.clone())
}

pub fn set_ctx(c: Option<Ctx>) -> Option<Ctx> {
  CTX.with(|cell| std::mem::replace(&mut *cell.borrow_mut(), c))
}

/// Panic payloads raised by the simulator itself (never by rxRust).
#[derive(Debug, Clone, PartialEq, Eq)]
pub enum SimAbort {
  /// a thread asked for a lock that nobody else can ever release
  SelfDeadlock,
  /// the run was aborted (deadlock detected elsewhere); unwind quietly
  Aborted,
  /// `block_on` while nothing can ever wake the caller
  WouldHang,
}

/// A DES run: owns the executor, installs the context for the current OS
/// thread, removes it on drop.
pub struct World {
  pub shared: Arc<Shared>,
  exec: Rc<LocalExec>,
  prev: Option<Ctx>,
}

impl World {
  pub fn new() -> Self {
    install_hooks();
    let shared = Shared::new();
    let exec = Rc::new(LocalExec::default());
    let prev = set_ctx(Some(Ctx { shared: shared.clone(), mode: Mode::Des(exec.clone()) }));
    World { shared, exec, prev }
  }

  /// Like `new` but shares clock/timers with an existing `Shared` (set-up phase
  /// of a thread-mode run).
  pub fn with_shared(shared: Arc<Shared>) -> Self {
    install_hooks();
    let exec = Rc::new(LocalExec::default());
    let prev = set_ctx(Some(Ctx { shared: shared.clone(), mode: Mode::Des(exec.clone()) }));
    World { shared, exec, prev }
  }

  pub fn now(&self) -> u64 {
    self.shared.now()
  }

  pub fn ready_count(&self) -> usize {
    self.exec.absorb_woken(&self.shared);
    self.exec.ready.borrow().len()
  }

  /// tasks that have been spawned and have not finished
  pub fn live_tasks(&self) -> usize {
    self.exec.slots.borrow().iter().filter(|s| !s.done).count()
  }

  pub fn live_timers(&self) -> usize {
    self.shared.live_timers()
  }

  /// Run the `choice`-th (modulo) ready task once. Returns false if none ready.
  pub fn run_task(&self, choice: usize) -> bool {
    self.exec.absorb_woken(&self.shared);
    let id = {
      let mut ready = self.exec.ready.borrow_mut();
      let n = ready.len();
      if n == 0 {
        return false;
      }
      if n > 1 {
        self.shared.stats.multi_ready_decisions.fetch_add(1, SeqCst);
      }
      ready.remove(choice % n).unwrap()
    };
    let mut fut = {
      let mut slots = self.exec.slots.borrow_mut();
      let s = &mut slots[id];
      s.queued = false;
      s.polling = true;
      s.fut.take().expect("task polled re-entrantly")
    };
    let waker = Waker::from(Arc::new(TaskWaker { id, shared: self.shared.clone() }));
    let mut cx = Context::from_waker(&waker);
    self.shared.stats.tasks_polled.fetch_add(1, SeqCst);
    let r = Pin::new(&mut fut).poll(&mut cx);
    let mut slots = self.exec.slots.borrow_mut();
    let s = &mut slots[id];
    s.polling = false;
    match r {
      Poll::Ready(()) => {
        s.done = true;
        drop(slots);
        drop(fut);
      }
      Poll::Pending => {
        s.fut = Some(fut);
      }
    }
    true
  }

  /// Poll the `choice`-th live task whether or not it was woken (a spurious
  /// poll: legal under the `Future` contract). Returns false if none is live.
  pub fn poll_any(&self, choice: usize) -> bool {
    self.exec.absorb_woken(&self.shared);
    let live: Vec<usize> = {
      let slots = self.exec.slots.borrow();
      (0..slots.len()).filter(|i| !slots[*i].done && !slots[*i].polling).collect()
    };
    if live.is_empty() {
      return false;
    }
    let id = live[choice % live.len()];
    {
      let mut ready = self.exec.ready.borrow_mut();
      if let Some(pos) = ready.iter().position(|x| *x == id) {
        ready.remove(pos);
      }
      // put it at the front and run it
      ready.push_front(id);
      self.exec.slots.borrow_mut()[id].queued = true;
    }
    self.run_task(0)
  }

  /// FIFO until nothing is ready (the `LocalPool::run_until_stalled` model).
  /// Returns the number of polls; stops after `budget` polls.
  pub fn run_ready_fifo(&self, budget: usize) -> usize {
    let mut n = 0;
    while n < budget && self.run_task(0) {
      n += 1;
    }
    n
  }

  pub fn advance_by(&self, ns: u64) -> usize {
    self.shared.advance_to(self.now().saturating_add(ns))
  }

  /// Jump to the next pending deadline. False if no timer is armed.
  pub fn advance_next(&self) -> bool {
    match self.shared.next_deadline() {
      Some(d) => {
        self.shared.advance_to(d.max(self.now()));
        true
      }
      None => false,
    }
  }

  /// Prompt quiescence: run FIFO, jump to the next deadline, repeat until
  /// nothing is ready and no timer is armed, or a budget is exhausted.
  /// Returns true if idle was reached.
  pub fn quiesce(&self, max_polls: usize, until_ns: u64) -> bool {
    let mut polls = 0;
    loop {
      polls += self.run_ready_fifo(max_polls - polls.min(max_polls));
      if polls >= max_polls {
        return false;
      }
      match self.shared.next_deadline() {
        Some(d) if d <= until_ns => {
          self.shared.advance_to(d.max(self.now()));
        }
        Some(_) => return false,
        None => return self.ready_count() == 0,
      }
    }
  }

  /// Drop every unfinished task (while the context is still installed).
  pub fn drop_tasks(&self) {
    loop {
      let futs: Vec<_> = {
        let mut slots = self.exec.slots.borrow_mut();
        slots
          .iter_mut()
          .filter_map(|s| {
            s.done = true;
            s.fut.take()
          })
          .collect()
      };
      if futs.is_empty() {
        break;
      }
      drop(futs);
    }
    self.exec.ready.borrow_mut().clear();
    self.exec.incoming.borrow_mut().clear();
  }
}

impl Drop for World {
  fn drop(&mut self) {
    self.drop_tasks();
    set_ctx(self.prev.take());
  }
}

// ------------------------------------------------------------------ spawner

/// Zero-sized handle to "the executor of the current run"; what rxRust's
/// `VerifLocalScheduler` / `VerifSharedScheduler` wrap.
#[derive(Clone, Copy, Default, Debug)]
pub struct SimSpawner;

impl LocalSpawn for SimSpawner {
  fn spawn_local_obj(&self, future: LocalFutureObj<'static, ()>) -> Result<(), SpawnError> {
    let c = ctx().expect("spawn outside a simulation");
    c.shared.stats.tasks_spawned.fetch_add(1, SeqCst);
    c.shared.stats.spawn_stamps.lock().unwrap().push(c.shared.seq.load(SeqCst));
    let real = REAL_POOL.with(|p| p.borrow().clone());
    if let Some(real) = real {
      return real.spawn_local_obj(future);
    }
    match c.mode {
      Mode::Des(exec) => {
        exec.spawn(future, &c.shared);
        Ok(())
      }
      Mode::Thread(..) => panic!("local spawn from a simulated thread"),
    }
  }
}

impl Spawn for SimSpawner {
  fn spawn_obj(&self, future: FutureObj<'static, ()>) -> Result<(), SpawnError> {
    let c = ctx().expect("spawn outside a simulation");
    c.shared.stats.tasks_spawned.fetch_add(1, SeqCst);
    c.shared.stats.spawn_stamps.lock().unwrap().push(c.shared.seq.load(SeqCst));
    match c.mode {
      Mode::Des(exec) => {
        if let Some(ts) = crate::threadsim::pending_pool() {
          // set-up phase of a thread-mode run with a worker pool: the task
          // belongs to the pool
          ts.spawn_shared(future);
        } else {
          exec.spawn(future.into(), &c.shared);
        }
        Ok(())
      }
      Mode::Thread(ts, _) => {
        ts.spawn_shared(future);
        Ok(())
      }
    }
  }
}

pub type LocalSched = rxrust::scheduler::VerifLocalScheduler<SimSpawner>;
pub type SharedSched = rxrust::scheduler::VerifSharedScheduler<SimSpawner>;

pub fn local_sched() -> LocalSched {
  rxrust::scheduler::VerifLocalScheduler(SimSpawner)
}
pub fn shared_sched() -> SharedSched {
  rxrust::scheduler::VerifSharedScheduler(SimSpawner)
}

// -------------------------------------------------------------------- hooks

static BASE: OnceCell<Instant> = OnceCell::new();

/// Virtual instants live one hour after process start, so that they are in
/// the real future for the whole life of the process.
pub fn base_instant() -> Instant {
  *BASE.get_or_init(|| Instant::now() + Duration::from_secs(3600))
}

pub fn instant_at(ns: u64) -> Instant {
  base_instant() + Duration::from_nanos(ns)
}

fn h_active() -> bool {
  CTX.with(|c| c.borrow().is_some())
}

fn h_yield(site: Site, addr: usize) {
  if std::thread::panicking() {
    return;
  }
  let Some(c) = ctx() else { return };
  if site == Site::Lock {
    c.shared.stats.locks.fetch_add(1, SeqCst);
  }
  if let Mode::Thread(ts, tid) = &c.mode {
    ts.yield_point(*tid, site, addr);
  }
}

fn h_contended(addr: usize) {
  let Some(c) = ctx() else { return };
  match &c.mode {
    Mode::Des(_) => {
      if std::thread::panicking() {
        // cannot raise a second panic; nothing sensible is left to do
        std::process::abort();
      }
      std::panic::panic_any(SimAbort::SelfDeadlock)
    }
    Mode::Thread(ts, tid) => ts.lock_contended(*tid, addr),
  }
}

fn h_now() -> Option<Instant> {
  ctx().map(|c| instant_at(c.shared.now()))
}

fn h_block_on(poll: &mut dyn FnMut(&mut Context<'_>) -> bool) {
  let c = ctx().expect("block_on hook without context");
  match &c.mode {
    Mode::Des(_) => {
      // single simulated thread: nobody else can wake us
      let flag = Arc::new(FlagWaker(AtomicBool::new(false)));
      let waker = Waker::from(flag.clone());
      let mut cx = Context::from_waker(&waker);
      loop {
        if poll(&mut cx) {
          return;
        }
        if !flag.0.swap(false, SeqCst) {
          std::panic::panic_any(SimAbort::WouldHang);
        }
      }
    }
    Mode::Thread(ts, tid) => ts.block_on(*tid, poll),
  }
}

pub struct FlagWaker(pub AtomicBool);
impl Wake for FlagWaker {
  fn wake(self: Arc<Self>) {
    self.0.store(true, SeqCst);
  }
  fn wake_by_ref(self: &Arc<Self>) {
    self.0.store(true, SeqCst);
  }
}

fn sim_new_timer(dur: Duration) -> futures::future::BoxFuture<'static, ()> {
  let sh = shared();
  Box::pin(sh.new_timer(dur))
}

pub fn install_hooks() {
  static DONE: OnceCell<()> = OnceCell::new();
  DONE.get_or_init(|| {
    base_instant();
    let _ = rxrust::scheduler::NEW_TIMER_FN.set(sim_new_timer);
    verif_hooks::install(verif_hooks::Hooks {
      active: h_active,
      yield_point: h_yield,
      lock_contended: h_contended,
      now: h_now,
      block_on: h_block_on,
    });
    // quiet panic hook for simulated threads: panics are caught and judged by
    // the oracles, not printed
    let default = std::panic::take_hook();
    std::panic::set_hook(Box::new(move |info| {
      if h_active() && std::env::var("VERIF_DEBUG").is_err() {
        return;
      }
      default(info)
    }));
  });
}

pub fn panic_message(p: &(dyn std::any::Any + Send)) -> String {
  if let Some(a) = p.downcast_ref::<SimAbort>() {
    format!("{:?}", a)
  } else if let Some(s) = p.downcast_ref::<&'static str>() {
    s.to_string()
  } else if let Some(s) = p.downcast_ref::<String>() {
    s.clone()
  } else {
    "<non-string panic>".to_string()
  }
}
