mod ast;
mod framework;
mod pipe;
mod probe;
mod props;
mod rng;
mod threadsim;
mod world;

use framework::Tier;

fn verif_dir() -> String {
  std::env::var("VERIF_DIR").unwrap_or_else(|_| "/verif".to_string())
}

fn main() {
  let args: Vec<String> = std::env::args().collect();
  let checks = props::all_checks();
  let code = match args.get(1).map(|s| s.as_str()) {
    Some("check") => {
      let id = args.get(2).expect("check <ID> <quick|thorough>");
      let tier = match args.get(3).map(|s| s.as_str()) {
        Some("thorough") => Tier::Thorough,
        _ => Tier::Quick,
      };
      match checks.iter().find(|c| c.id == id) {
        Some(pc) => framework::run_check(pc, tier, &verif_dir()),
        None => {
          eprintln!("unknown property {}", id);
          2
        }
      }
    }
    Some("replay") => framework::replay(&checks, args.get(2).expect("replay <file>")),
    Some("hashes") => {
      let id = args.get(2).expect("hashes <ID> [n]");
      let n = args.get(3).and_then(|s| s.parse().ok()).unwrap_or(2000);
      match checks.iter().find(|c| c.id == id) {
        Some(pc) => {
          framework::dump_hashes(pc, n);
          0
        }
        None => 2,
      }
    }
    Some("fidelity") => {
      let n = args.get(2).and_then(|s| s.parse().ok()).unwrap_or(20000);
      if props::pipes::fidelity(n, framework::master_seed()) == 0 {
        0
      } else {
        1
      }
    }
    Some("list") => {
      for c in &checks {
        println!("{}", c.id);
      }
      0
    }
    _ => {
      eprintln!("usage: rxsim check <ID> <quick|thorough> | replay <file> | hashes <ID> [n] | list");
      2
    }
  };
  std::process::exit(code);
}
