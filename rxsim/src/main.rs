mod ast;
mod framework;
mod pipe;
mod probe;
mod props;
mod rng;
mod threadsim;
mod world;

use framework::Tier;

fn verif_dir() -> String {
  std::env::var("VERIF_DIR").unwrap_or_else(|_| "/verif".to_string())
}

/// Wall-clock reads in the library that do not go through `verif_hooks::now()`
/// are outside the simulator's seams: whatever depends on them is not decided
/// by these checks (and makes runs irreproducible). Reported as a note, never as
/// a violation. Baseline: the `timestamp`-style read in observable.rs, which
/// only ends up in item payloads the probes ignore, and the FakeClock test utility.
fn seam_audit() {
  fn walk(dir: &std::path::Path, out: &mut Vec<String>) {
    let Ok(rd) = std::fs::read_dir(dir) else { return };
    let mut entries: Vec<_> = rd.flatten().map(|e| e.path()).collect();
    entries.sort();
    for p in entries {
      if p.is_dir() {
        walk(&p, out);
      } else if p.extension().map_or(false, |e| e == "rs") {
        let Ok(text) = std::fs::read_to_string(&p) else { continue };
        let lines: Vec<&str> = text.lines().collect();
        for (i, l) in lines.iter().enumerate() {
          if l.contains("#[cfg(test)]") {
            break;
          }
          let t = l.trim_start();
          if t.starts_with("//") {
            continue;
          }
          if l.contains("Instant::now()") || l.contains("SystemTime::now()") {
            let hooked = lines[i..(i + 5).min(lines.len())].iter().any(|x| x.contains("verif_hooks::now"));
            if !hooked {
              out.push(format!("{}:{}", p.display(), i + 1));
            }
          }
        }
      }
    }
  }
  let mut found = Vec::new();
  walk(std::path::Path::new("/repo/src"), &mut found);
  found.retain(|f| !f.starts_with("/repo/src/observable.rs:4") && !f.starts_with("/repo/src/observable/fake_timer.rs"));
  if !found.is_empty() {
    eprintln!("NOTE: {} wall-clock read(s) in /repo/src outside the simulator's seams ({}): behaviour that depends on them is not decided by this check", found.len(), found.join(", "));
  }
}

fn main() {
  let args: Vec<String> = std::env::args().collect();
  let checks = props::all_checks();
  let code = match args.get(1).map(|s| s.as_str()) {
    Some("check") => {
      let id = args.get(2).expect("check <ID> <quick|thorough>");
      let tier = match args.get(3).map(|s| s.as_str()) {
        Some("thorough") => Tier::Thorough,
        _ => Tier::Quick,
      };
      seam_audit();
      match checks.iter().find(|c| c.id == id) {
        Some(pc) => framework::run_check(pc, tier, &verif_dir()),
        None => {
          eprintln!("unknown property {}", id);
          2
        }
      }
    }
    Some("replay") => framework::replay(&checks, args.get(2).expect("replay <file>")),
    Some("hashes") => {
      let id = args.get(2).expect("hashes <ID> [n]");
      let n = args.get(3).and_then(|s| s.parse().ok()).unwrap_or(2000);
      match checks.iter().find(|c| c.id == id) {
        Some(pc) => {
          framework::dump_hashes(pc, n);
          0
        }
        None => 2,
      }
    }
    Some("fidelity") => {
      let n = args.get(2).and_then(|s| s.parse().ok()).unwrap_or(20000);
      if props::pipes::fidelity(n, framework::master_seed()) == 0 {
        0
      } else {
        1
      }
    }
    Some("list") => {
      for c in &checks {
        println!("{}", c.id);
      }
      0
    }
    _ => {
      eprintln!("usage: rxsim check <ID> <quick|thorough> | replay <file> | hashes <ID> [n] | list");
      2
    }
  };
  std::process::exit(code);
}
