//! Thread mode: real OS threads, one baton. A simulated thread runs only while
//! it holds the baton and gives it back at every hooked scheduling point
//! (`MutArc` lock acquisition, the `StatusFuture` check/register window,
//! harness yields, blocking). Who runs next is decided by a strategy fed from
//! the run's PRNG or from an explicit decision list (replay), so the OS
//! scheduler has no influence on the run.

use crate::rng::Rng;
use crate::world::{
  panic_message, set_ctx, Ctx, FlagWaker, Mode, Shared, SimAbort, TaskWaker,
};
use futures::task::FutureObj;
use rxrust::verif_hooks::Site;
use serde::{Deserialize, Serialize};
use std::{
  cell::RefCell,
  collections::VecDeque,
  future::Future,
  panic::{catch_unwind, AssertUnwindSafe},
  pin::Pin,
  sync::{atomic::Ordering::SeqCst, Arc, Condvar, Mutex, MutexGuard},
  task::{Context, Poll, Waker},
};

#[derive(Clone, Debug, Serialize, Deserialize, PartialEq)]
pub enum Strategy {
  /// uniformly random eligible thread at every decision
  Random,
  /// PCT: random priorities, `d` priority change points within `k` steps
  Pct { d: u8, k: u16 },
  /// keep running the current thread; switch with probability 1/den
  Seq { den: u8 },
}

#[derive(Clone, Debug, Serialize, Deserialize, PartialEq)]
pub enum SchedSpec {
  Seeded { seed: u64, strategy: Strategy },
  /// replay / minimised form: one entry per decision that had more than one
  /// option (index into the eligible set, taken modulo its size); when the list
  /// is exhausted the current thread keeps running if it can.
  Explicit(Vec<u16>),
}

enum Sched {
  Random(Rng),
  Pct { prio: Vec<u32>, change: Vec<u64>, low: u32, rng: Rng },
  Seq { rng: Rng, den: usize },
  Explicit { list: Vec<u16>, pos: usize },
}

#[derive(Clone, Debug, PartialEq)]
enum TStatus {
  NotStarted,
  Runnable,
  /// failed `try_lock`; eligible again once another thread has made a step
  WaitOthers { progress: bool, addr: usize },
  /// parked in `block_on`
  WaitFlag(Arc<FlagWakerEq>),
  /// idle pool worker
  WaitWork,
  Finished,
}

/// `Arc<FlagWaker>` with pointer equality (only to derive PartialEq above)
#[derive(Debug)]
pub struct FlagWakerEq(pub Arc<FlagWaker>);
impl PartialEq for FlagWakerEq {
  fn eq(&self, o: &Self) -> bool {
    Arc::ptr_eq(&self.0, &o.0)
  }
}
impl std::fmt::Debug for FlagWaker {
  fn fmt(&self, f: &mut std::fmt::Formatter<'_>) -> std::fmt::Result {
    write!(f, "flag({})", self.0.load(SeqCst))
  }
}

struct TInfo {
  status: TStatus,
  is_worker: bool,
  last_site: &'static str,
  /// woke up from a failed `try_lock` and has executed nothing since: its next
  /// yield (the retry) is not progress for anybody else
  retrying: bool,
}

struct TSlot {
  fut: Option<FutureObj<'static, ()>>,
  queued: bool,
  done: bool,
  /// a worker is polling it right now
  polling: bool,
  /// woken while being polled: queue it again when the poll returns Pending
  rewake: bool,
}

struct TState {
  threads: Vec<TInfo>,
  current: Option<usize>,
  abort: bool,
  sched: Sched,
  decisions: Vec<u16>,
  trace_hash: u64,
  steps: u64,
  max_steps: u64,
  slots: Vec<TSlot>,
  ready: VecDeque<usize>,
  shutdown: bool,
  deadlock: Option<String>,
  budget_overrun: bool,
  contentions: u64,
  preemptions: u64,
  multi_choice: u64,
  window_hits: u64,
  driver_done: bool,
  users_done_at: Option<u64>,
}

pub struct TSim {
  st: Mutex<TState>,
  cvs: Vec<Condvar>,
  driver_cv: Condvar,
  pub shared: Arc<Shared>,
  n_threads: usize,
  /// pool workers take ready tasks in wake order (a one-worker FIFO pool)
  /// instead of letting the schedule pick any ready task
  pub fifo_tasks: std::sync::atomic::AtomicBool,
}

#[derive(Debug, Default, Clone)]
pub struct TReport {
  pub decisions: Vec<u16>,
  pub trace_hash: u64,
  pub steps: u64,
  pub deadlock: Option<String>,
  pub budget_overrun: bool,
  /// (thread, message) of every panic that was not the simulator's own abort
  pub panics: Vec<(usize, String)>,
  pub contentions: u64,
  pub preemptions: u64,
  pub multi_choice: u64,
  pub window_hits: u64,
  /// pool tasks that had not finished when the pool was shut down (100 virtual
  /// ms after the last caller thread returned)
  pub leftover_tasks: usize,
  /// virtual time at which every caller thread had returned
  pub users_done_at: Option<u64>,
}

thread_local! {
  static POOL: RefCell<Option<Arc<TSim>>> = const { RefCell::new(None) };
}

pub fn pending_pool() -> Option<Arc<TSim>> {
  POOL.with(|p| p.borrow().clone())
}

pub type Body = Box<dyn FnOnce() + Send + 'static>;

impl TSim {
  /// `n_user` caller threads plus `n_workers` pool workers.
  pub fn new(
    shared: Arc<Shared>,
    spec: &SchedSpec,
    n_user: usize,
    n_workers: usize,
    max_steps: u64,
  ) -> Arc<Self> {
    let n = n_user + n_workers;
    let sched = match spec {
      SchedSpec::Explicit(list) => Sched::Explicit { list: list.clone(), pos: 0 },
      SchedSpec::Seeded { seed, strategy } => {
        let mut rng = Rng::new(*seed);
        match strategy {
          Strategy::Random => Sched::Random(rng),
          Strategy::Seq { den } => Sched::Seq { rng, den: (*den).max(2) as usize },
          Strategy::Pct { d, k } => {
            // random distinct priorities d+1 .. d+n, change points in 1..=k
            let mut prio: Vec<u32> = (0..n as u32).map(|i| *d as u32 + 1 + i).collect();
            for i in (1..n).rev() {
              let j = rng.below(i + 1);
              prio.swap(i, j);
            }
            let change = (0..*d).map(|_| 1 + rng.below((*k).max(1) as usize) as u64).collect();
            Sched::Pct { prio, change, low: *d as u32, rng }
          }
        }
      }
    };
    let threads = (0..n)
      .map(|i| TInfo { status: TStatus::NotStarted, is_worker: i >= n_user, last_site: "start", retrying: false })
      .collect();
    Arc::new(TSim {
      st: Mutex::new(TState {
        threads,
        current: None,
        abort: false,
        sched,
        decisions: Vec::new(),
        trace_hash: 0xcbf29ce484222325,
        steps: 0,
        max_steps,
        slots: Vec::new(),
        ready: VecDeque::new(),
        shutdown: false,
        deadlock: None,
        budget_overrun: false,
        contentions: 0,
        preemptions: 0,
        multi_choice: 0,
        window_hits: 0,
        driver_done: false,
        users_done_at: None,
      }),
      cvs: (0..n).map(|_| Condvar::new()).collect(),
      driver_cv: Condvar::new(),
      shared,
      n_threads: n,
      fifo_tasks: std::sync::atomic::AtomicBool::new(false),
    })
  }

  /// Run `f` on the calling (driver) thread with this run's pool as the
  /// destination of tasks spawned through `Spawn` (set-up phase).
  pub fn with_pool<R>(self: &Arc<Self>, f: impl FnOnce() -> R) -> R {
    let prev = POOL.with(|p| p.replace(Some(self.clone())));
    let r = f();
    POOL.with(|p| *p.borrow_mut() = prev);
    r
  }

  pub fn spawn_shared(&self, fut: FutureObj<'static, ()>) {
    let mut st = self.st.lock().unwrap();
    // wakes that happened before this spawn are ahead of it in the queue
    self.absorb_woken(&mut st);
    let id = st.slots.len();
    st.slots.push(TSlot { fut: Some(fut), queued: true, done: false, polling: false, rewake: false });
    st.ready.push_back(id);
  }

  fn absorb_woken(&self, st: &mut TState) {
    for id in self.shared.take_woken() {
      if let Some(s) = st.slots.get_mut(id) {
        if s.polling {
          s.rewake = true;
        } else if !s.done && !s.queued {
          s.queued = true;
          st.ready.push_back(id);
        }
      }
    }
  }

  fn eligible(&self, st: &TState) -> Vec<usize> {
    let mut e = Vec::new();
    for (i, t) in st.threads.iter().enumerate() {
      let ok = match &t.status {
        TStatus::Runnable => true,
        TStatus::WaitOthers { progress, .. } => *progress,
        TStatus::WaitFlag(f) => f.0 .0.load(SeqCst),
        TStatus::WaitWork => !st.ready.is_empty() || st.shutdown,
        TStatus::NotStarted | TStatus::Finished => false,
      };
      if ok {
        e.push(i);
      }
    }
    e
  }

  /// Draw one decision among `n > 1` options. `cur` = position of the running
  /// thread in the option list, if it is an option.
  fn decide(&self, st: &mut TState, opts: &[usize], cur: Option<usize>, threads: bool) -> usize {
    let n = opts.len();
    st.multi_choice += 1;
    let steps = st.steps;
    let pick = match &mut st.sched {
      Sched::Random(rng) => rng.below(n),
      Sched::Seq { rng, den } => match cur {
        Some(c) if !rng.chance(1, *den) => c,
        _ => rng.below(n),
      },
      Sched::Explicit { list, pos } => {
        if *pos < list.len() {
          let d = list[*pos] as usize % n;
          *pos += 1;
          d
        } else {
          cur.unwrap_or(0)
        }
      }
      Sched::Pct { rng, .. } if !threads => rng.below(n),
      Sched::Pct { prio, change, low, .. } => {
        if let Some(c) = cur {
          if change.contains(&steps) && *low > 0 {
            // priority change point: the running thread drops below all others
            prio[opts[c]] = *low;
            *low -= 1;
          }
        }
        let mut best = 0;
        for (i, t) in opts.iter().enumerate() {
          if prio[*t] > prio[opts[best]] {
            best = i;
          }
        }
        best
      }
    };
    st.decisions.push(pick as u16);
    pick
  }

  /// Choose who runs next. `me` = the thread giving up the baton (None for the
  /// driver's initial hand-off).
  fn pick_next(&self, st: &mut TState, me: Option<usize>) -> Option<usize> {
    loop {
      self.absorb_woken(st);
      let e = self.eligible(st);
      if !e.is_empty() {
        let cur = me.and_then(|m| e.iter().position(|x| *x == m));
        let idx = if e.len() == 1 { 0 } else { self.decide(st, &e, cur, true) };
        let next = e[idx];
        if let (Some(m), Some(_)) = (me, cur) {
          if next != m {
            st.preemptions += 1;
          }
        }
        st.trace_hash = (st.trace_hash ^ (next as u64 + 1)).wrapping_mul(0x100000001b3);
        return Some(next);
      }
      if st.threads.iter().all(|t| t.status == TStatus::Finished) {
        return None;
      }
      // nobody can run: let virtual time pass, then shut the pool down, else
      // it is a deadlock / lost wakeup
      let users_done = st.threads.iter().all(|t| t.is_worker || t.status == TStatus::Finished);
      if users_done && st.users_done_at.is_none() {
        st.users_done_at = Some(self.shared.now());
      }
      if let Some(d) = self.shared.next_deadline() {
        // once every caller thread has returned, let at most 100 virtual ms
        // pass for the pool to drain (periodic tasks may never end)
        let horizon = st.users_done_at.map_or(u64::MAX, |t| t + 100 * crate::world::MS);
        if d <= horizon {
          self.shared.advance_to(d.max(self.shared.now()));
          continue;
        }
      }
      if !st.shutdown
        && st.threads.iter().all(|t| t.is_worker || t.status == TStatus::Finished)
      {
        st.shutdown = true;
        continue;
      }
      let desc: Vec<String> = st
        .threads
        .iter()
        .enumerate()
        .filter(|(_, t)| t.status != TStatus::Finished)
        .map(|(i, t)| {
          let s = match &t.status {
            TStatus::WaitOthers { .. } => "blocked-on-lock",
            TStatus::WaitFlag(_) => "parked-never-woken",
            TStatus::WaitWork => "idle-worker",
            _ => "?",
          };
          format!("t{}:{}@{}", i, s, t.last_site)
        })
        .collect();
      st.deadlock = Some(desc.join(" "));
      st.abort = true;
      return None;
    }
  }

  /// Give up the baton with `status` and come back when it is ours again.
  fn reschedule(&self, me: usize, status: TStatus, site: &'static str) {
    let mut st = self.st.lock().unwrap();
    if st.abort {
      drop(st);
      self.abort_unwind();
    }
    // A failed try_lock, and the retry right after waking up from one, change
    // nothing another thread could be waiting for; everything else may have
    // released a lock since this thread's previous scheduling point.
    let is_contended = matches!(status, TStatus::WaitOthers { .. });
    let was_retrying = std::mem::replace(&mut st.threads[me].retrying, is_contended);
    st.threads[me].status = status;
    st.threads[me].last_site = site;
    if !is_contended && !(was_retrying && site == "lock") {
      for (i, t) in st.threads.iter_mut().enumerate() {
        if i != me {
          if let TStatus::WaitOthers { progress, .. } = &mut t.status {
            *progress = true;
          }
        }
      }
    }
    st.steps += 1;
    if st.steps > st.max_steps {
      st.budget_overrun = true;
      st.abort = true;
    }
    let next = if st.abort { None } else { self.pick_next(&mut st, Some(me)) };
    let finished = st.threads[me].status == TStatus::Finished;
    match next {
      Some(n) if n == me => {
        st.threads[me].status = TStatus::Runnable;
        return;
      }
      Some(n) => {
        st.current = Some(n);
        self.cvs[n].notify_one();
      }
      None => {
        // all finished, or abort
        st.current = None;
        for cv in &self.cvs {
          cv.notify_one();
        }
        self.driver_cv.notify_one();
      }
    }
    if finished {
      if st.threads.iter().all(|t| t.status == TStatus::Finished) {
        self.driver_cv.notify_one();
      }
      return;
    }
    st = self.wait_turn(me, st);
    st.threads[me].status = TStatus::Runnable;
  }

  fn wait_turn<'a>(&'a self, me: usize, mut st: MutexGuard<'a, TState>) -> MutexGuard<'a, TState> {
    loop {
      if st.abort {
        drop(st);
        self.abort_unwind();
      }
      if st.current == Some(me) {
        return st;
      }
      st = self.cvs[me].wait(st).unwrap();
    }
  }

  fn abort_unwind(&self) -> ! {
    if std::thread::panicking() {
      // already unwinding: cannot panic again. Spin politely; whoever holds what
      // we want is unwinding too.
      loop {
        std::thread::yield_now();
        std::thread::sleep(std::time::Duration::from_micros(50));
        if !std::thread::panicking() {
          break;
        }
      }
    }
    std::panic::panic_any(SimAbort::Aborted)
  }

  // ---- entry points from the hooks (called on simulated threads)

  pub fn yield_point(&self, me: usize, site: Site, _addr: usize) {
    let name = match site {
      Site::Lock => "lock",
      Site::StatusCheckRegister => {
        self.st.lock().unwrap().window_hits += 1;
        "status-check-register"
      }
    };
    self.reschedule(me, TStatus::Runnable, name);
  }

  /// harness-level scheduling point (inside probe callbacks, between ops)
  pub fn harness_yield(&self, me: usize, site: &'static str) {
    self.reschedule(me, TStatus::Runnable, site);
  }

  pub fn lock_contended(&self, me: usize, addr: usize) {
    if std::thread::panicking() {
      std::thread::yield_now();
      return;
    }
    self.st.lock().unwrap().contentions += 1;
    self.reschedule(me, TStatus::WaitOthers { progress: false, addr }, "lock-contended");
  }

  pub fn block_on(&self, me: usize, poll: &mut dyn FnMut(&mut Context<'_>) -> bool) {
    let flag = Arc::new(FlagWaker(std::sync::atomic::AtomicBool::new(false)));
    let waker = Waker::from(flag.clone());
    let mut cx = Context::from_waker(&waker);
    loop {
      if poll(&mut cx) {
        return;
      }
      // park until unparked (futures' block_on: `while !unparked.swap(false) { park() }`)
      self.reschedule(me, TStatus::WaitFlag(Arc::new(FlagWakerEq(flag.clone()))), "block_on-park");
      flag.0.store(false, SeqCst);
    }
  }

  /// Block the calling simulated thread for `ns` of virtual time. Time only
  /// passes when every thread is blocked, so a sleeper lets timers (and the
  /// pool tasks they wake) run concurrently with what it does next.
  pub fn sleep(&self, me: usize, ns: u64) {
    let mut t = self.shared.new_timer(std::time::Duration::from_nanos(ns));
    self.block_on(me, &mut |cx| Pin::new(&mut t).poll(cx).is_ready());
  }

  /// Pool worker loop body: take one ready task (a decision when several are
  /// ready) and poll it. Returns false when the pool has shut down.
  fn worker_step(self: &Arc<Self>, me: usize) -> bool {
    // wait for work (scheduling point)
    self.reschedule(me, TStatus::WaitWork, "worker-idle");
    let (id, mut fut) = {
      let mut st = self.st.lock().unwrap();
      self.absorb_woken(&mut st);
      if st.ready.is_empty() {
        return !st.shutdown;
      }
      let n = st.ready.len();
      let opts: Vec<usize> = (0..n).collect();
      let k = if n == 1 || self.fifo_tasks.load(SeqCst) { 0 } else { self.decide(&mut st, &opts, None, false) };
      let id = st.ready.remove(k).unwrap();
      st.slots[id].queued = false;
      let Some(fut) = st.slots[id].fut.take() else {
        // finished in the meantime
        return true;
      };
      st.slots[id].polling = true;
      st.slots[id].rewake = false;
      (id, fut)
    };
    let waker = Waker::from(Arc::new(TaskWaker { id, shared: self.shared.clone() }));
    let mut cx = Context::from_waker(&waker);
    self.shared.stats.tasks_polled.fetch_add(1, SeqCst);
    let r = match catch_unwind(AssertUnwindSafe(|| Pin::new(&mut fut).poll(&mut cx))) {
      Ok(r) => r,
      Err(p) => {
        let mut st = self.st.lock().unwrap();
        st.slots[id].polling = false;
        st.slots[id].done = true;
        drop(st);
        std::panic::resume_unwind(p);
      }
    };
    let mut st = self.st.lock().unwrap();
    st.slots[id].polling = false;
    match r {
      Poll::Ready(()) => {
        st.slots[id].done = true;
        drop(st);
        drop(fut);
      }
      Poll::Pending => {
        st.slots[id].fut = Some(fut);
        if st.slots[id].rewake && !st.slots[id].queued {
          st.slots[id].rewake = false;
          st.slots[id].queued = true;
          st.ready.push_back(id);
        }
      }
    }
    true
  }

  /// Run the user bodies (and the pool workers) to completion under the
  /// scheduler. Called on the driver thread, which keeps its own context.
  pub fn run(self: &Arc<Self>, bodies: Vec<Body>) -> TReport {
    let n_user = bodies.len();
    assert!(n_user <= self.n_threads);
    let panics: Arc<Mutex<Vec<(usize, String)>>> = Arc::new(Mutex::new(Vec::new()));
    let mut handles = Vec::new();
    let mut all: Vec<Body> = bodies;
    for w in n_user..self.n_threads {
      let ts = self.clone();
      all.push(Box::new(move || while ts.worker_step(w) {}));
    }
    for (tid, body) in all.into_iter().enumerate() {
      let ts = self.clone();
      let panics = panics.clone();
      let job: Body = Box::new(move || {
        set_ctx(Some(Ctx { shared: ts.shared.clone(), mode: Mode::Thread(ts.clone(), tid) }));
        let r = catch_unwind(AssertUnwindSafe(|| {
          {
            let st = ts.st.lock().unwrap();
            let mut st = ts.wait_turn(tid, st);
            st.threads[tid].status = TStatus::Runnable;
          }
          body();
        }));
        if let Err(p) = r {
          if p.downcast_ref::<SimAbort>() != Some(&SimAbort::Aborted) {
            panics.lock().unwrap().push((tid, panic_message(&*p)));
          }
        }
        // finished: hand the baton on (never unwinds: status Finished)
        let _ = catch_unwind(AssertUnwindSafe(|| {
          ts.finish(tid);
        }));
        set_ctx(None);
      });
      handles.push(submit_job(tid, job));
    }
    {
      let mut st = self.st.lock().unwrap();
      for t in st.threads.iter_mut() {
        t.status = TStatus::Runnable;
      }
      match self.pick_next(&mut st, None) {
        Some(n) => {
          st.current = Some(n);
          self.cvs[n].notify_one();
        }
        None => {}
      }
      let mut last_steps = st.steps;
      while !(st.abort || st.threads.iter().all(|t| t.status == TStatus::Finished)) {
        let (g, to) = self.driver_cv.wait_timeout(st, std::time::Duration::from_secs(10)).unwrap();
        st = g;
        if to.timed_out() {
          if st.steps == last_steps {
            // the simulator itself is stuck: a harness error, never a violation
            eprintln!(
              "HARNESS: thread simulation stuck: current={:?} steps={} ready={:?} shutdown={} threads={:?}",
              st.current,
              st.steps,
              st.ready,
              st.shutdown,
              st.threads.iter().map(|t| format!("{:?}@{}", t.status, t.last_site)).collect::<Vec<_>>()
            );
            std::process::exit(2);
          }
          last_steps = st.steps;
        }
      }
      if st.abort {
        for cv in &self.cvs {
          cv.notify_one();
        }
      }
    }
    for h in handles {
      wait_job(h);
    }
    let mut st = self.st.lock().unwrap();
    st.driver_done = true;
    // drop unfinished pool tasks on the driver thread
    let leftovers: Vec<_> = st.slots.iter_mut().filter_map(|s| s.fut.take()).collect();
    let rep = TReport {
      decisions: std::mem::take(&mut st.decisions),
      trace_hash: st.trace_hash,
      steps: st.steps,
      deadlock: st.deadlock.clone(),
      budget_overrun: st.budget_overrun,
      panics: std::mem::take(&mut *panics.lock().unwrap()),
      contentions: st.contentions,
      preemptions: st.preemptions,
      multi_choice: st.multi_choice,
      window_hits: st.window_hits,
      leftover_tasks: leftovers.len(),
      users_done_at: st.users_done_at,
    };
    drop(st);
    drop(leftovers);
    rep
  }

  fn finish(&self, me: usize) {
    let mut st = self.st.lock().unwrap();
    st.threads[me].status = TStatus::Finished;
    st.threads[me].last_site = "finished";
    for (i, t) in st.threads.iter_mut().enumerate() {
      if i != me {
        if let TStatus::WaitOthers { progress, .. } = &mut t.status {
          *progress = true;
        }
      }
    }
    if st.abort {
      if st.threads.iter().all(|t| t.status == TStatus::Finished) {
        self.driver_cv.notify_one();
      }
      // make sure everybody else gets to see the abort
      for cv in &self.cvs {
        cv.notify_one();
      }
      self.driver_cv.notify_one();
      return;
    }
    let next = self.pick_next(&mut st, Some(me));
    match next {
      Some(n) => {
        st.current = Some(n);
        self.cvs[n].notify_one();
      }
      None => {
        st.current = None;
        for cv in &self.cvs {
          cv.notify_one();
        }
        self.driver_cv.notify_one();
      }
    }
  }
}

/// Scheduling point placed by the harness itself (e.g. inside a probe
/// callback). No-op outside thread mode.
pub fn harness_yield(site: &'static str) {
  if std::thread::panicking() {
    return;
  }
  if let Some(c) = crate::world::ctx() {
    if let Mode::Thread(ts, tid) = &c.mode {
      ts.harness_yield(*tid, site);
    }
  }
}

/// Simulated sleep (thread mode only; no-op elsewhere).
pub fn harness_sleep_ms(ms: u64) {
  if let Some(c) = crate::world::ctx() {
    if let Mode::Thread(ts, tid) = &c.mode {
      ts.sleep(*tid, ms * crate::world::MS);
    }
  }
}

pub fn current_tid() -> usize {
  match crate::world::ctx() {
    Some(Ctx { mode: Mode::Thread(_, tid), .. }) => tid + 1,
    _ => 0,
  }
}

// ---- persistent OS threads for simulated threads (one set per batch worker):
// creating and joining threads per run serialises on the process' mm lock.

struct PoolThread {
  tx: std::sync::mpsc::Sender<Body>,
  done: std::sync::mpsc::Receiver<()>,
}

thread_local! {
  static OS_THREADS: RefCell<Vec<PoolThread>> = const { RefCell::new(Vec::new()) };
}

fn submit_job(slot: usize, job: Body) -> usize {
  OS_THREADS.with(|p| {
    let mut p = p.borrow_mut();
    while p.len() <= slot {
      let (tx, rx) = std::sync::mpsc::channel::<Body>();
      let (dtx, drx) = std::sync::mpsc::channel::<()>();
      std::thread::Builder::new()
        .stack_size(1024 * 1024)
        .spawn(move || {
          while let Ok(job) = rx.recv() {
            job();
            if dtx.send(()).is_err() {
              break;
            }
          }
        })
        .expect("spawn simulated thread");
      p.push(PoolThread { tx, done: drx });
    }
    p[slot].tx.send(job).expect("sim thread gone");
  });
  slot
}

fn wait_job(slot: usize) {
  OS_THREADS.with(|p| {
    p.borrow()[slot].done.recv().expect("sim thread died");
  })
}
