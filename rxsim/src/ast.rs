//! Pipelines as data: an AST interpreted into real rxRust calls, every node
//! re-boxed (`box_it`), in the local and in the thread-safe flavour.

use crate::probe::*;
use crate::rng::Rng;
use crate::world::*;
use rxrust::ops::box_it::{BoxOp, BoxOpThreads};
use rxrust::ops::throttle::ThrottleEdge;
use rxrust::prelude::*;
use serde::{Deserialize, Serialize};
use std::sync::atomic::{AtomicU64, Ordering::SeqCst};
use std::sync::Arc;
use std::time::Duration;

#[derive(Clone, Debug, Serialize, Deserialize, PartialEq)]
pub enum UOp {
  Map,
  MapTo,
  Filter(u8),
  FilterMap,
  Tap,
  Take(u8),
  Skip(u8),
  TakeWhile(u8),
  TakeWhileIncl(u8),
  SkipWhile(u8),
  TakeLast(u8),
  SkipLast(u8),
  First,
  FirstOr,
  Last,
  LastOr,
  ElementAt(u8),
  IgnoreElements,
  StartWith,
  DefaultIfEmpty,
  Scan,
  Reduce,
  Count,
  Sum,
  Min,
  Max,
  Distinct,
  DistinctUntilChanged,
  DistinctKey,
  Pairwise,
  BufferCount(u8),
  Contains(u8),
  All(u8),
  Collect,
  OnErrorMap,
  Finalize,
  Share,
  BoxIt,
  Delay(u8),
  DelaySubscription(u8),
  SubscribeOn,
  ObserveOn,
  Debounce(u8),
  /// window, edge (0 leading, 1 tailing, 2 all)
  Throttle(u8, u8),
  BufferTime(u8),
  BufferCountTime(u8, u8),
  SampleInterval(u8),
  GroupFlat(u8),
  /// group_by(key = weight mod m) with each group reduced to its last item:
  /// every group speaks at its terminal, so the order in which group_by hands
  /// the source's terminal to its groups shows in the output
  #[serde(alias = "GroupLast")]
  GroupLast(u8),
  /// group_by(key = weight mod m) whose group consumers log their own terminal
  /// (on_complete / on_error per group) before the groups are merged again:
  /// the order in which the groups are told about the source's terminal is
  /// part of what is delivered
  GroupTap(u8),
  Average,
  /// timestamp() with the (real-clock) instant mapped away again
  Timestamp,
  OnComplete,
  /// on_error swallows the error: downstream sees no terminal after it
  OnError,
  ScanInitial,
  ReduceInitial,
  DistinctUntilKeyChanged,
  /// delay_at / delay_subscription_at with the instant `build time + off ms`
  DelayAt(i8),
  DelaySubscriptionAt(i8),
}

#[derive(Clone, Debug, Serialize, Deserialize, PartialEq)]
pub enum BOp {
  Merge,
  Zip,
  CombineLatest,
  WithLatestFrom,
  TakeUntil,
  SkipUntil,
  Sample,
  Buffer,
}

#[derive(Clone, Debug, Serialize, Deserialize, PartialEq)]
pub enum Node {
  Hot(usize),
  /// the BehaviorSubject twin of hot input i (current value first, then live)
  #[serde(alias = "Beh")]
  Behavior(usize),
  Of(i64),
  FromIter(u8),
  Empty,
  Throw,
  Interval { p: u8, take: u8 },
  Timer { d: u8 },
  /// `create` whose producer runs the script synchronously at subscription,
  /// every event through a fresh clone of the subscriber handle - so events
  /// after the terminal and second terminals do reach the library (0 next,
  /// 1 error, 2 complete)
  Create(Vec<u8>),
  /// from_future over a ready future / from_stream over a ready stream of n items
  FromFuture,
  FromStream(u8),
  /// unbounded interval (C16 producer)
  Ticker { p: u8 },
  /// from_iter over a counting iterator of n items (C16 producer)
  PullIter(u8),
  /// from_stream over an always-ready stream of n items that counts its polls
  PollStream(u8),
  /// from_stream_result over the same counting stream (items wrapped in Ok)
  PollStreamR(u8),
  /// unbounded interval_at(build time + off ms, p) (C16 producer)
  TickerAt { off: i8, p: u8 },
  Never,
  /// defer(|| build(inner))
  Defer(Box<Node>),
  OfFn,
  Start,
  /// of_result(Ok | Err)
  OfResult(bool),
  /// of_option(Some | None)
  OfOption(bool),
  Repeat(u8),
  /// from_future_result over a ready Ok | Err
  FromFutureResult(bool),
  /// from_stream_result over a ready stream of n items, the i-th an Err
  FromStreamResult { n: u8, err_at: Option<u8> },
  /// interval_at(build time + off ms, p).take(take)
  IntervalAt { off: i8, p: u8, take: u8 },
  /// timer_at(build time + off ms)
  TimerAt { off: i8 },
  U(UOp, Box<Node>),
  B(BOp, Box<Node>, Box<Node>),
  /// merge_all(n) (None = flatten / unbounded) over `outer` whose items pick
  /// one of `inners` (by weight modulo)
  Flat {
    n: Option<u8>,
    outer: Box<Node>,
    inners: Vec<Node>,
    /// which API spelling: 0 map+merge_all(n)/flatten, 1 flat_map, 2 concat_map, 3 map+concat_all
    #[serde(default)]
    form: u8,
  },
}

/// side-channel counters of a built pipeline
#[derive(Default)]
pub struct Counters {
  pub finalizers: AtomicU64,
  pub taps: AtomicU64,
  /// global event stamps of every `Iterator::next` call of a PullIter
  pub pulls: std::sync::Mutex<Vec<u64>>,
  /// global event stamps of every `poll_next` call of a PollStream
  pub polls: std::sync::Mutex<Vec<u64>>,
  /// global event stamps of every tick a Ticker emitted
  pub ticks: std::sync::Mutex<Vec<u64>>,
  /// number of Ticker instances built (inner sub-trees are built per outer item)
  pub ticker_instances: AtomicU64,
  /// global event stamps of every subscription a flattening operator made to
  /// one of its inner observables
  pub inner_subs: std::sync::Mutex<Vec<u64>>,
  /// ... and of every outer item arriving at a flattening operator (= an
  /// inner observable being built)
  pub inner_builds: std::sync::Mutex<Vec<u64>>,
  /// what the group consumers of a GroupTap node were told, in order:
  /// (key, 0 = complete / 1 = error)
  pub group_terminals: std::sync::Mutex<Vec<(i64, u8)>>,
}

/// Wrapper around an inner observable of a flattening operator that records
/// when it is subscribed.
#[derive(Clone)]
pub struct StampSrc<S> {
  inner: S,
  c: std::sync::Arc<Counters>,
}
impl<S, O> Observable<Val, E, O> for StampSrc<S>
where
  S: Observable<Val, E, O>,
  O: Observer<Val, E>,
{
  type Unsub = S::Unsub;
  fn actual_subscribe(self, o: O) -> S::Unsub {
    self.c.inner_subs.lock().unwrap().push(crate::world::shared().seq.load(SeqCst));
    self.inner.actual_subscribe(o)
  }
}
impl<S> ObservableExt<Val, E> for StampSrc<S> {}

pub struct CountIt {
  i: u8,
  n: u8,
  c: Arc<Counters>,
}
impl Iterator for CountIt {
  type Item = Val;
  fn next(&mut self) -> Option<Val> {
    self.c.pulls.lock().unwrap().push(shared().stamp());
    if self.i < self.n {
      self.i += 1;
      Some(Val::I(600 + self.i as i64))
    } else {
      None
    }
  }
}

pub struct CountStream {
  i: u8,
  n: u8,
  c: Arc<Counters>,
}
impl futures::Stream for CountStream {
  type Item = Val;
  fn poll_next(mut self: std::pin::Pin<&mut Self>, _cx: &mut std::task::Context<'_>) -> std::task::Poll<Option<Val>> {
    self.c.polls.lock().unwrap().push(shared().stamp());
    if self.i < self.n {
      self.i += 1;
      std::task::Poll::Ready(Some(Val::I(650 + self.i as i64)))
    } else {
      std::task::Poll::Ready(None)
    }
  }
}

#[derive(Clone)]
pub struct EnvL {
  pub hots: Vec<Subject<'static, Val, E>>,
  /// one BehaviorSubject per hot input, fed the same events right after it
  pub behaviors: Vec<BehL>,
  pub counters: Arc<Counters>,
}
pub type BehL = BehaviorSubject<Val, Subject<'static, Val, E>>;
pub type BehS = BehaviorSubject<Val, SubjectThreads<Val, E>>;

#[derive(Clone)]
pub struct EnvS {
  pub hots: Vec<SubjectThreads<Val, E>>,
  pub behaviors: Vec<BehS>,
  pub counters: Arc<Counters>,
}

macro_rules! env_impl {
  ($env:ident, $hot:ty, $beh:ty) => {
    impl $env {
      pub fn new(hots: Vec<$hot>, counters: Arc<Counters>) -> Self {
        let behaviors = hots.iter().map(|_| <$beh>::new(Val::I(-40))).collect();
        $env { hots, behaviors, counters }
      }
      /// one event into hot input `i` and then into its BehaviorSubject twin
      pub fn emit(&self, i: usize, ev: &crate::pipe::In, v: Val, e: E) {
        use crate::pipe::In;
        match ev {
          In::Next => {
            self.hots[i].clone().next(v.clone());
            self.behaviors[i].clone().next(v)
          }
          In::Err => {
            self.hots[i].clone().error(e);
            self.behaviors[i].clone().error(e)
          }
          In::Complete => {
            self.hots[i].clone().complete();
            self.behaviors[i].clone().complete()
          }
        }
      }
    }
  };
}
env_impl!(EnvL, Subject<'static, Val, E>, BehL);
env_impl!(EnvS, SubjectThreads<Val, E>, BehS);

fn ms(d: u8) -> Duration {
  Duration::from_millis(d as u64)
}

/// the instant `off` ms away from the simulated now (which may lie before the
/// simulation's epoch)
fn at(off: i8) -> std::time::Instant {
  let t = shared().now() as i64 + off as i64 * 1_000_000;
  if t >= 0 {
    crate::world::instant_at(t as u64)
  } else {
    crate::world::base_instant() - Duration::from_nanos((-t) as u64)
  }
}

fn edge(e: u8) -> ThrottleEdge {
  match e % 3 {
    0 => ThrottleEdge::leading(),
    1 => ThrottleEdge::tailing(),
    _ => ThrottleEdge::all(),
  }
}

macro_rules! build_fn {
  ($fname:ident, $env:ty, $box:ty, $sched:expr, $subject:ty, $subscriber:ty,
   $merge:ident, $zip:ident, $combine:ident, $wlf:ident, $take_until:ident, $skip_until:ident, $sample:ident,
   $merge_all:ident, $flatten:ident, $flat_map:ident, $concat_map:ident, $concat_all:ident, $finalize:ident, $share:ident, $delay:ident, $observe_on:ident, $delay_at:ident) => {
    pub fn $fname(node: &Node, env: &$env) -> $box {
      match node {
        Node::Hot(i) => env.hots[*i % env.hots.len()].clone().box_it(),
        Node::Behavior(i) => env.behaviors[*i % env.behaviors.len()].clone().box_it(),
        Node::Of(v) => observable::of(Val::I(*v)).on_error_map(|_| 0).box_it(),
        Node::FromIter(n) => observable::from_iter((0..*n as i64).map(|i| Val::I(500 + i))).on_error_map(|_| 0).box_it(),
        Node::Empty => ObservableExt::<Val, std::convert::Infallible>::on_error_map(observable::empty(), |_| 0).box_it(),
        Node::Throw => observable::throw(9).map(|_| Val::I(0)).box_it(),
        Node::Interval { p, take } => observable::interval(ms((*p).max(1)), $sched)
          .take(*take as usize)
          .map(|i| Val::I(700 + i as i64))
          .on_error_map(|_| 0)
          .box_it(),
        Node::Timer { d } => observable::timer(Val::I(800), ms(*d), $sched).on_error_map(|_| 0).box_it(),
        Node::Create(script) => {
          let script = script.clone();
          observable::create(move |s: $subscriber| {
            let mut k = 0i64;
            for ev in script {
              let mut c = s.clone();
              match ev % 3 {
                0 => {
                  k += 1;
                  c.next(Val::I(900 + k))
                }
                1 => c.error(7),
                _ => c.complete(),
              }
            }
          })
          .box_it()
        }
        Node::FromFuture => observable::from_future(futures::future::ready(Val::I(850)), $sched).on_error_map(|_| 0).box_it(),
        Node::FromStream(n) => observable::from_stream(futures::stream::iter((0..*n as i64).map(|i| Val::I(860 + i))), $sched).on_error_map(|_| 0).box_it(),
        Node::Ticker { p } => {
          let c = env.counters.clone();
          c.ticker_instances.fetch_add(1, SeqCst);
          observable::interval(ms((*p).max(1)), $sched)
            .map(move |i| {
              c.ticks.lock().unwrap().push(shared().stamp());
              Val::I(700 + i as i64)
            })
            .on_error_map(|_| 0)
            .box_it()
        }
        Node::PullIter(n) => observable::from_iter(CountIt { i: 0, n: *n, c: env.counters.clone() }).on_error_map(|_| 0).box_it(),
        Node::PollStream(n) => observable::from_stream(CountStream { i: 0, n: *n, c: env.counters.clone() }, $sched).on_error_map(|_| 0).box_it(),
        Node::PollStreamR(n) => {
          let st = futures::StreamExt::map(CountStream { i: 0, n: *n, c: env.counters.clone() }, |v| Ok::<Val, E>(v));
          observable::from_stream_result(st, $sched).box_it()
        }
        Node::TickerAt { off, p } => {
          let c = env.counters.clone();
          c.ticker_instances.fetch_add(1, SeqCst);
          observable::interval_at(at(*off), ms((*p).max(1)), $sched)
            .map(move |i| {
              c.ticks.lock().unwrap().push(shared().stamp());
              Val::I(700 + i as i64)
            })
            .on_error_map(|_| 0)
            .box_it()
        }
        Node::Never => observable::never().map(|_| Val::I(0)).on_error_map(|_| 0).box_it(),
        Node::Defer(inner) => {
          let inner = (**inner).clone();
          let env2 = env.clone();
          observable::defer(move || $fname(&inner, &env2)).box_it()
        }
        Node::OfFn => observable::of_fn(|| Val::I(810)).on_error_map(|_| 0).box_it(),
        Node::Start => observable::start(|| Val::I(811)).on_error_map(|_| 0).box_it(),
        Node::OfResult(ok) => observable::of_result(if *ok { Ok(Val::I(812)) } else { Err(8) }).box_it(),
        Node::OfOption(some) => observable::of_option(if *some { Some(Val::I(813)) } else { None }).on_error_map(|_| 0).box_it(),
        Node::Repeat(n) => observable::repeat(Val::I(814), *n as usize).on_error_map(|_| 0).box_it(),
        Node::FromFutureResult(ok) => {
          let r: Result<Val, E> = if *ok { Ok(Val::I(851)) } else { Err(6) };
          observable::from_future_result(futures::future::ready(r), $sched).box_it()
        }
        Node::FromStreamResult { n, err_at } => {
          let err_at = *err_at;
          let it = (0..*n).map(move |i| -> Result<Val, E> { if Some(i) == err_at { Err(5) } else { Ok(Val::I(870 + i as i64)) } });
          observable::from_stream_result(futures::stream::iter(it), $sched).box_it()
        }
        Node::IntervalAt { off, p, take } => observable::interval_at(at(*off), ms((*p).max(1)), $sched)
          .take(*take as usize)
          .map(|i| Val::I(720 + i as i64))
          .on_error_map(|_| 0)
          .box_it(),
        Node::TimerAt { off } => observable::timer_at(Val::I(801), at(*off), $sched).on_error_map(|_| 0).box_it(),
        Node::B(op, a, b) => {
          let a = $fname(a, env);
          let b = $fname(b, env);
          match op {
            BOp::Merge => a.$merge(b).box_it(),
            BOp::Zip => a.$zip(b).map(|(x, y)| Val::pair(x, y)).box_it(),
            BOp::CombineLatest => a.$combine(b, |x: Val, y: Val| (x, y)).map(|(x, y)| Val::pair(x, y)).box_it(),
            BOp::WithLatestFrom => a.$wlf(b).map(|(x, y)| Val::pair(x, y)).box_it(),
            BOp::TakeUntil => a.$take_until(b).box_it(),
            BOp::SkipUntil => a.$skip_until(b).box_it(),
            BOp::Sample => a.$sample(b).box_it(),
            BOp::Buffer => a.buffer(b.map(|_| ())).map(Val::L).box_it(),
          }
        }
        Node::Flat { n, outer, inners, form } => {
          let o = $fname(outer, env);
          let inners = inners.clone();
          let env2 = env.clone();
          let f = move |v: Val| {
            let c = env2.counters.clone();
            c.inner_builds.lock().unwrap().push(crate::world::shared().seq.load(SeqCst));
            if inners.is_empty() {
              StampSrc { inner: $fname(&Node::Empty, &env2), c }
            } else {
              let k = v.weight().rem_euclid(inners.len() as i64) as usize;
              StampSrc { inner: $fname(&inners[k], &env2), c }
            }
          };
          match (form % 4, n) {
            (1, _) => o.$flat_map(f).box_it(),
            (2, _) => o.$concat_map(f).box_it(),
            (3, _) => o.map(f).$concat_all().box_it(),
            (_, Some(n)) => o.map(f).$merge_all(*n as usize).box_it(),
            (_, None) => o.map(f).$flatten().box_it(),
          }
        }
        Node::U(op, s) => {
          let s = $fname(s, env);
          match op {
            UOp::Map => s.map(|v: Val| Val::I(v.weight().wrapping_mul(3).wrapping_add(1))).box_it(),
            UOp::MapTo => s.map_to(Val::I(42)).box_it(),
            UOp::Filter(m) => {
              let m = (*m as i64).max(2);
              s.filter(move |v: &Val| v.weight().rem_euclid(m) != 0).box_it()
            }
            UOp::FilterMap => s.filter_map(|v: Val| if v.weight() % 3 == 0 { None } else { Some(v) }).box_it(),
            UOp::Tap => {
              let c = env.counters.clone();
              s.tap(move |_| {
                c.taps.fetch_add(1, SeqCst);
              })
              .box_it()
            }
            UOp::Take(n) => s.take(*n as usize).box_it(),
            UOp::Skip(n) => s.skip(*n as usize).box_it(),
            UOp::TakeWhile(n) => {
              let n = *n as i64;
              s.take_while(move |v: &Val| v.weight().rem_euclid(7) < n).box_it()
            }
            UOp::TakeWhileIncl(n) => {
              let n = *n as i64;
              s.take_while_inclusive(move |v: &Val| v.weight().rem_euclid(7) < n).box_it()
            }
            UOp::SkipWhile(n) => {
              let n = *n as i64;
              s.skip_while(move |v: &Val| v.weight().rem_euclid(7) < n).box_it()
            }
            UOp::TakeLast(n) => s.take_last(*n as usize).box_it(),
            UOp::SkipLast(n) => s.skip_last(*n as usize).box_it(),
            UOp::First => s.first().box_it(),
            UOp::FirstOr => s.first_or(Val::I(-5)).box_it(),
            UOp::Last => s.last().box_it(),
            UOp::LastOr => s.last_or(Val::I(-6)).box_it(),
            UOp::ElementAt(n) => s.element_at(*n as usize).box_it(),
            UOp::IgnoreElements => s.ignore_elements().box_it(),
            UOp::StartWith => s.start_with(vec![Val::I(-1), Val::I(-2)]).box_it(),
            UOp::DefaultIfEmpty => s.default_if_empty(Val::I(-7)).box_it(),
            UOp::Scan => s.scan(|a: Val, v: Val| a + v).box_it(),
            UOp::Reduce => s.reduce(|a: Val, v: Val| a + v).box_it(),
            UOp::Count => s.count().map(|c| Val::I(c as i64)).box_it(),
            UOp::Sum => s.sum().box_it(),
            UOp::Min => s.min().box_it(),
            UOp::Max => s.max().box_it(),
            UOp::Distinct => s.distinct().box_it(),
            UOp::DistinctUntilChanged => s.distinct_until_changed().box_it(),
            UOp::DistinctKey => s.distinct_key(|v: &Val| v.weight() % 4).box_it(),
            UOp::Pairwise => s.pairwise().map(|(a, b)| Val::pair(a, b)).box_it(),
            UOp::BufferCount(n) => s.buffer_with_count((*n).max(1) as usize).map(Val::L).box_it(),
            UOp::Contains(n) => s.contains(Val::I(*n as i64)).map(|b| Val::I(b as i64)).box_it(),
            UOp::All(n) => {
              let n = *n as i64;
              s.all(move |v: Val| v.weight().rem_euclid(7) < n).map(|b| Val::I(b as i64)).box_it()
            }
            UOp::Collect => s.collect::<Vec<Val>>().map(Val::L).box_it(),
            UOp::OnErrorMap => s.on_error_map(|e: E| e + 100).box_it(),
            UOp::Finalize => {
              let c = env.counters.clone();
              s.$finalize(move || {
                c.finalizers.fetch_add(1, SeqCst);
              })
              .box_it()
            }
            UOp::Share => s.$share().box_it(),
            UOp::BoxIt => s.box_it(),
            UOp::Delay(d) => s.$delay(ms(*d), $sched).box_it(),
            UOp::DelaySubscription(d) => s.delay_subscription(ms(*d), $sched).box_it(),
            UOp::SubscribeOn => s.subscribe_on($sched).box_it(),
            UOp::ObserveOn => s.$observe_on($sched).box_it(),
            UOp::Debounce(w) => s.debounce(ms((*w).max(1)), $sched).box_it(),
            UOp::Throttle(w, e) => s.throttle_time(ms((*w).max(1)), edge(*e), $sched).box_it(),
            UOp::BufferTime(w) => s.buffer_with_time(ms((*w).max(1)), $sched).map(Val::L).box_it(),
            UOp::BufferCountTime(c, w) => s.buffer_with_count_and_time((*c).max(1) as usize, ms((*w).max(1)), $sched).map(Val::L).box_it(),
            UOp::SampleInterval(w) => s.$sample(observable::interval(ms((*w).max(1)), $sched).on_error_map(|_| 0)).box_it(),
            UOp::GroupFlat(m) => {
              let m = (*m as i64).max(1);
              s.group_by::<_, _, $subject>(move |v: &Val| v.weight().rem_euclid(m)).$flatten().box_it()
            }
            UOp::GroupLast(m) => {
              let m = (*m as i64).max(1);
              s.group_by::<_, _, $subject>(move |v: &Val| v.weight().rem_euclid(m)).$flat_map(|g| g.take_last(1)).box_it()
            }
            UOp::GroupTap(m) => {
              let m = (*m as i64).max(1);
              let c = env.counters.clone();
              s.group_by::<_, _, $subject>(move |v: &Val| v.weight().rem_euclid(m))
                .$flat_map(move |g| {
                  let key = g.key;
                  let (c1, c2) = (c.clone(), c.clone());
                  g.on_complete(move || c1.group_terminals.lock().unwrap().push((key, 0)))
                    .on_error(move |_e: E| c2.group_terminals.lock().unwrap().push((key, 1)))
                    .on_error_map(|_| 0)
                })
                .box_it()
            }
            UOp::Average => s.average().box_it(),
            UOp::Timestamp => s.timestamp().map(|(v, _)| v).box_it(),
            UOp::OnComplete => {
              let c = env.counters.clone();
              s.on_complete(move || {
                c.taps.fetch_add(1, SeqCst);
              })
              .box_it()
            }
            UOp::OnError => {
              let c = env.counters.clone();
              s.on_error(move |_e: E| {
                c.taps.fetch_add(1, SeqCst);
              })
              .on_error_map(|_| 0)
              .box_it()
            }
            UOp::ScanInitial => s.scan_initial(Val::I(3), |a: Val, v: Val| a + v).box_it(),
            UOp::ReduceInitial => s.reduce_initial(Val::I(4), |a: Val, v: Val| a + v).box_it(),
            UOp::DistinctUntilKeyChanged => s.distinct_until_key_changed(|v: &Val| v.weight() % 3).box_it(),
            UOp::DelayAt(off) => s.$delay_at(at(*off), $sched).box_it(),
            UOp::DelaySubscriptionAt(off) => s.delay_subscription_at(at(*off), $sched).box_it(),
          }
        }
      }
    }
  };
}

build_fn!(
  build_local,
  EnvL,
  BoxOp<'static, Val, E>,
  local_sched(),
  Subject<'static, Val, E>,
  Subscriber<rxrust::observer::BoxObserver<'static, Val, E>>,
  merge,
  zip,
  combine_latest,
  with_latest_from,
  take_until,
  skip_until,
  sample,
  merge_all,
  flatten,
  flat_map,
  concat_map,
  concat_all,
  finalize,
  share,
  delay,
  observe_on,
  delay_at
);

build_fn!(
  build_shared,
  EnvS,
  BoxOpThreads<Val, E>,
  shared_sched(),
  SubjectThreads<Val, E>,
  SubscriberThreads<rxrust::observer::BoxObserverThreads<Val, E>>,
  merge_threads,
  zip_threads,
  combine_latest_threads,
  with_latest_from_threads,
  take_until_threads,
  skip_until_threads,
  sample_threads,
  merge_all_threads,
  flatten_threads,
  flat_map_threads,
  concat_map_threads,
  concat_all_threads,
  finalize_threads,
  share_threads,
  delay_threads,
  observe_on_threads,
  delay_at_threads
);

// ------------------------------------------------------------------ analysis

impl Node {
  pub fn size(&self) -> usize {
    match self {
      Node::U(_, s) | Node::Defer(s) => 1 + s.size(),
      Node::B(_, a, b) => 1 + a.size() + b.size(),
      Node::Flat { outer, inners, .. } => 1 + outer.size() + inners.iter().map(|i| i.size()).sum::<usize>(),
      _ => 1,
    }
  }
  /// names of all operators / sources in the tree, sorted, deduplicated
  pub fn op_names(&self) -> Vec<String> {
    fn rec(n: &Node, out: &mut Vec<String>) {
      match n {
        Node::U(op, s) => {
          out.push(format!("{:?}", op).split('(').next().unwrap().to_string());
          rec(s, out);
        }
        Node::B(op, a, b) => {
          out.push(format!("{:?}", op));
          rec(a, out);
          rec(b, out);
        }
        Node::Flat { n, outer, inners, form } => {
          out.push(match form % 4 {
            1 => "FlatMap".into(),
            2 => "ConcatMap".into(),
            3 => "ConcatAll".into(),
            _ => if n.is_some() { "MergeAll".into() } else { "Flatten".into() },
          });
          rec(outer, out);
          for i in inners {
            rec(i, out);
          }
        }
        Node::Hot(_) => out.push("Hot".into()),
        Node::Behavior(_) => out.push("Behavior".into()),
        Node::Of(_) => out.push("Of".into()),
        Node::FromIter(_) => out.push("FromIter".into()),
        Node::Empty => out.push("Empty".into()),
        Node::Throw => out.push("Throw".into()),
        Node::Interval { .. } => out.push("Interval".into()),
        Node::Timer { .. } => out.push("Timer".into()),
        Node::Ticker { .. } => out.push("Ticker".into()),
        Node::Create(_) => out.push("Create".into()),
        Node::FromFuture => out.push("FromFuture".into()),
        Node::FromStream(_) => out.push("FromStream".into()),
        Node::PullIter(_) => out.push("PullIter".into()),
        Node::PollStream(_) => out.push("PollStream".into()),
        Node::PollStreamR(_) => out.push("PollStreamR".into()),
        Node::TickerAt { .. } => out.push("TickerAt".into()),
        Node::Never => out.push("Never".into()),
        Node::Defer(s) => {
          out.push("Defer".into());
          rec(s, out);
        }
        Node::OfFn => out.push("OfFn".into()),
        Node::Start => out.push("Start".into()),
        Node::OfResult(_) => out.push("OfResult".into()),
        Node::OfOption(_) => out.push("OfOption".into()),
        Node::Repeat(_) => out.push("Repeat".into()),
        Node::FromFutureResult(_) => out.push("FromFutureResult".into()),
        Node::FromStreamResult { .. } => out.push("FromStreamResult".into()),
        Node::IntervalAt { .. } => out.push("IntervalAt".into()),
        Node::TimerAt { .. } => out.push("TimerAt".into()),
      }
    }
    let mut v = Vec::new();
    rec(self, &mut v);
    v.sort();
    v.dedup();
    v
  }
  pub fn uses_scheduler(&self) -> bool {
    self.op_names().iter().any(|n| {
      matches!(
        n.as_str(),
        "Interval" | "Timer" | "Ticker" | "TickerAt" | "PollStream" | "PollStreamR" | "FromFuture" | "FromStream" | "FromFutureResult" | "FromStreamResult" | "IntervalAt" | "TimerAt" | "DelayAt" | "DelaySubscriptionAt" | "Delay" | "DelaySubscription" | "SubscribeOn" | "ObserveOn" | "Debounce" | "Throttle" | "BufferTime" | "BufferCountTime" | "SampleInterval"
      )
    })
  }
  /// validity for the harness (bounded sizes; no spinning sources)
  pub fn valid(&self, depth: usize) -> bool {
    if depth > 8 {
      return false;
    }
    match self {
      Node::U(_, s) | Node::Defer(s) => s.valid(depth + 1),
      Node::B(_, a, b) => a.valid(depth + 1) && b.valid(depth + 1),
      Node::Flat { outer, inners, .. } => inners.len() <= 4 && outer.valid(depth + 1) && inners.iter().all(|i| i.valid(depth + 1)),
      Node::Interval { p, take } => *p >= 1 && *take >= 1 && *take <= 20,
      Node::FromIter(n) => *n <= 20,
      Node::Ticker { p } | Node::TickerAt { p, .. } => *p >= 1,
      Node::Create(sc) => sc.len() <= 8,
      Node::FromStream(n) | Node::Repeat(n) => *n <= 20,
      Node::FromStreamResult { n, .. } => *n <= 20,
      Node::IntervalAt { p, take, .. } => *p >= 1 && *take >= 1 && *take <= 20,
      Node::PullIter(n) | Node::PollStream(n) | Node::PollStreamR(n) => *n <= 60,
      _ => true,
    }
  }
}

// ---------------------------------------------------------------- generation

pub struct GenCfg {
  pub max_depth: usize,
  pub n_hot: usize,
  /// relative weight of scheduler-using operators
  pub sched_weight: usize,
  /// operators never generated (exercised in dedicated scenarios)
  pub exclude: Vec<&'static str>,
  pub allow_flat: bool,
  /// leaves are mostly unbounded / counting producers (C16)
  pub producer_leaves: bool,
}

fn gen_uop(rng: &mut Rng, cfg: &GenCfg) -> UOp {
  loop {
    let small = rng.below(4) as u8;
    let w = *rng.pick(&[1u8, 2, 5]);
    let plain = 56usize;
    let pick = rng.below(plain + cfg.sched_weight * 10);
    let op = if pick < plain {
      match pick {
        0 => UOp::Map,
        1 => UOp::MapTo,
        2 => UOp::Filter(small + 2),
        3 => UOp::FilterMap,
        4 => UOp::Tap,
        5 | 6 => UOp::Take(small),
        7 => UOp::Skip(small),
        8 => UOp::TakeWhile(small + 2),
        9 => UOp::TakeWhileIncl(small + 2),
        10 => UOp::SkipWhile(small + 2),
        11 => UOp::TakeLast(small),
        12 => UOp::SkipLast(small),
        13 => UOp::First,
        14 => UOp::FirstOr,
        15 => UOp::Last,
        16 => UOp::LastOr,
        17 => UOp::ElementAt(small),
        18 => UOp::IgnoreElements,
        19 => UOp::StartWith,
        20 => UOp::DefaultIfEmpty,
        21 => UOp::Scan,
        22 => UOp::Reduce,
        23 => UOp::Count,
        24 => UOp::Sum,
        25 => UOp::Min,
        26 => UOp::Max,
        27 => UOp::Distinct,
        28 => UOp::DistinctUntilChanged,
        29 => UOp::DistinctKey,
        30 => UOp::Pairwise,
        31 => UOp::BufferCount(small + 1),
        32 => UOp::Contains(small),
        33 => UOp::All(small + 3),
        34 => UOp::Collect,
        35 => UOp::OnErrorMap,
        36 | 37 => UOp::Finalize,
        38 | 39 => UOp::Share,
        40 => UOp::BoxIt,
        41 => UOp::GroupFlat(small + 1),
        42 => UOp::Average,
        43 => UOp::Timestamp,
        44 => UOp::OnComplete,
        45 => UOp::OnError,
        46 => UOp::ScanInitial,
        47 => UOp::ReduceInitial,
        48 => UOp::DistinctUntilKeyChanged,
        49 => UOp::GroupLast(small + 2),
        50 => UOp::GroupTap(small + 2),
        _ => UOp::Map,
      }
    } else {
      match rng.below(12) {
        10 => UOp::DelayAt(*rng.pick(&[-3i8, 0, 1, 5])),
        11 => UOp::DelaySubscriptionAt(*rng.pick(&[-3i8, 0, 1, 5])),
        0 | 1 => UOp::Delay(*rng.pick(&[0u8, 1, 5])),
        2 => UOp::DelaySubscription(*rng.pick(&[0u8, 1, 5])),
        3 => UOp::SubscribeOn,
        4 | 5 => UOp::ObserveOn,
        6 => UOp::Debounce(w),
        7 => UOp::Throttle(w, rng.below(3) as u8),
        8 => {
          if rng.chance(1, 2) {
            UOp::BufferTime(w)
          } else {
            UOp::BufferCountTime(small + 1, w)
          }
        }
        _ => UOp::SampleInterval(w),
      }
    };
    let name = format!("{:?}", op).split('(').next().unwrap().to_string();
    if !cfg.exclude.contains(&name.as_str()) {
      return op;
    }
  }
}

pub fn gen_node(rng: &mut Rng, cfg: &GenCfg, depth: usize) -> Node {
  let leaf = depth >= cfg.max_depth || rng.chance(1, 4 + depth);
  if leaf && cfg.producer_leaves {
    return match rng.below(16) {
      13 => Node::TickerAt { off: *rng.pick(&[-3i8, 0, 1, 5]), p: *rng.pick(&[1u8, 2, 5]) },
      14 | 15 => Node::PollStreamR(rng.range(0, 40) as u8),
      0..=3 => Node::Ticker { p: *rng.pick(&[1u8, 2, 5]) },
      4..=6 => Node::PullIter(rng.range(0, 40) as u8),
      7 | 8 => Node::PollStream(rng.range(0, 40) as u8),
      9..=11 => {
        if rng.chance(1, 5) {
          Node::Behavior(rng.below(cfg.n_hot.max(1)))
        } else {
          Node::Hot(rng.below(cfg.n_hot.max(1)))
        }
      }
      _ => Node::Interval { p: *rng.pick(&[1u8, 2, 5]), take: rng.range(1, 4) as u8 },
    };
  }
  if leaf {
    return match rng.below(20) {
      15 => match rng.below(6) {
        0 => Node::Never,
        1 => Node::OfFn,
        2 => Node::Start,
        3 => Node::OfResult(rng.chance(1, 2)),
        4 => Node::OfOption(rng.chance(1, 2)),
        _ => Node::Repeat(rng.below(4) as u8),
      },
      16 => Node::FromFutureResult(rng.chance(1, 2)),
      17 => {
        let n = rng.below(4) as u8;
        Node::FromStreamResult { n, err_at: if n > 0 && rng.chance(1, 2) { Some(rng.below(n as usize) as u8) } else { None } }
      }
      18 => Node::IntervalAt { off: *rng.pick(&[-3i8, 0, 1, 5]), p: *rng.pick(&[1u8, 2, 5]), take: rng.range(1, 4) as u8 },
      19 => Node::TimerAt { off: *rng.pick(&[-3i8, 0, 1, 5]) },
      12 => Node::Create((0..rng.below(6)).map(|_| rng.weighted(&[5, 1, 2]) as u8).collect()),
      13 => Node::FromFuture,
      14 => Node::FromStream(rng.below(4) as u8),
      0..=4 => Node::Hot(rng.below(cfg.n_hot.max(1))),
      5 => {
        if rng.chance(1, 2) {
          Node::Behavior(rng.below(cfg.n_hot.max(1)))
        } else {
          Node::Hot(rng.below(cfg.n_hot.max(1)))
        }
      }
      6 => Node::Of(rng.below(9) as i64),
      7 => Node::FromIter(rng.below(5) as u8),
      8 => Node::Empty,
      9 => Node::Throw,
      10 => Node::Interval { p: *rng.pick(&[1u8, 2, 5]), take: rng.range(1, 4) as u8 },
      _ => Node::Timer { d: *rng.pick(&[0u8, 1, 5]) },
    };
  }
  if rng.chance(1, 25) {
    return Node::Defer(Box::new(gen_node(rng, cfg, depth + 1)));
  }
  match rng.below(10) {
    0..=5 => Node::U(gen_uop(rng, cfg), Box::new(gen_node(rng, cfg, depth + 1))),
    6..=8 => {
      let op = match rng.below(8) {
        0 | 1 => BOp::Merge,
        2 => BOp::Zip,
        3 => BOp::CombineLatest,
        4 => BOp::WithLatestFrom,
        5 => BOp::TakeUntil,
        6 => BOp::SkipUntil,
        _ => {
          if rng.chance(1, 2) {
            BOp::Sample
          } else {
            BOp::Buffer
          }
        }
      };
      Node::B(op, Box::new(gen_node(rng, cfg, depth + 1)), Box::new(gen_node(rng, cfg, depth + 1)))
    }
    _ if cfg.allow_flat => {
      let k = rng.range(1, 3);
      Node::Flat {
        // a limit of 0 (everything queued, nothing ever started) is legal input too
        n: if rng.chance(1, 3) { None } else { Some(if rng.chance(1, 10) { 0 } else { rng.range(1, 3) as u8 }) },
        outer: Box::new(gen_node(rng, cfg, depth + 1)),
        inners: (0..k).map(|_| gen_node(rng, cfg, depth + 2)).collect(),
        form: if rng.chance(1, 2) { 0 } else { rng.range(1, 3) as u8 },
      }
    }
    _ => Node::U(gen_uop(rng, cfg), Box::new(gen_node(rng, cfg, depth + 1))),
  }
}
