//! C04 — multi-input combinators follow the interleaving of their inputs.
//! Two hot inputs, the merged timeline is the schedule; a small acceptor per
//! operator (no stronger than the statement) judges the output step by step.

use crate::framework::*;
use crate::probe::*;
use crate::rng::Rng;
use crate::threadsim::*;
use crate::world::*;
use std::sync::Arc;
use rxrust::prelude::*;
use serde::{Deserialize, Serialize};
use serde_json::Value;

#[derive(Clone, Copy, Debug, Serialize, Deserialize, PartialEq, Eq)]
pub enum Op {
  Merge,
  Zip,
  CombineLatest,
  WithLatestFrom,
  TakeUntil,
  SkipUntil,
  Sample,
  Buffer,
}

#[derive(Clone, Copy, Debug, Serialize, Deserialize, PartialEq, Eq)]
pub enum Side {
  A,
  B,
}

#[derive(Clone, Copy, Debug, Serialize, Deserialize, PartialEq, Eq)]
pub enum In {
  Next,
  Err,
  Complete,
}

#[derive(Clone, Debug, Serialize, Deserialize)]
pub struct Case {
  op: Op,
  threads_flavour: bool,
  script: Vec<(Side, In)>,
  /// events an input emits synchronously inside its `actual_subscribe`, before
  /// it hands the observer to its hot part (a cold or replaying input); where in
  /// the merged timeline they fall is decided by the operator's subscription
  /// order, so the timeline is *recorded*, not predicted
  #[serde(default)]
  cold_a: Vec<In>,
  #[serde(default)]
  cold_b: Vec<In>,
  /// the cold part stops (like `from_iter`) once the observer reports finished
  #[serde(default)]
  polite_a: bool,
  #[serde(default)]
  polite_b: bool,
}

type Timeline = std::sync::Arc<std::sync::Mutex<Vec<(u64, Side, Ev)>>>;

/// A user-written observable: emits `prefix` at subscription, then (unless the
/// prefix ended in a terminal) subscribes the observer to `hot`.
#[derive(Clone)]
struct ColdHot<H, T> {
  prefix: Vec<Ev>,
  hot: H,
  side: Side,
  tl: Timeline,
  polite: bool,
  conv: fn(Val) -> T,
}

enum ColdSub<U> {
  Done,
  Hot(U),
}

impl<U: Subscription> Subscription for ColdSub<U> {
  fn unsubscribe(self) {
    if let ColdSub::Hot(u) = self {
      u.unsubscribe()
    }
  }
  fn is_closed(&self) -> bool {
    match self {
      ColdSub::Done => true,
      ColdSub::Hot(u) => u.is_closed(),
    }
  }
}

impl<H, T, O> Observable<T, E, O> for ColdHot<H, T>
where
  H: Observable<T, E, O>,
  O: Observer<T, E>,
{
  type Unsub = ColdSub<H::Unsub>;
  fn actual_subscribe(self, mut observer: O) -> Self::Unsub {
    for ev in self.prefix {
      if self.polite && observer.is_finished() {
        return ColdSub::Done;
      }
      self.tl.lock().unwrap().push((shared().stamp(), self.side, ev.clone()));
      match ev {
        Ev::Next(v) => observer.next((self.conv)(v)),
        Ev::Err(e) => {
          observer.error(e);
          return ColdSub::Done;
        }
        Ev::Complete => {
          observer.complete();
          return ColdSub::Done;
        }
      }
    }
    ColdSub::Hot(self.hot.actual_subscribe(observer))
  }
}

impl<H, T> ObservableExt<T, E> for ColdHot<H, T> {}

pub struct C04;

/// Acceptor state
#[derive(Clone)]
struct Model {
  op: Op,
  a_done: bool,
  b_done: bool,
  out_done: bool,
  qa: Vec<Val>,
  qb: Vec<Val>,
  la: Option<Val>,
  lb: Option<Val>,
  open: bool,          // skip_until: notifier has emitted
  pending: Option<Val>, // sample
  gathered: Vec<Val>,   // buffer
}

impl Model {
  /// acceptable output lists for this input event; `v` is the item value
  fn step(&mut self, side: Side, ev: &Ev) -> Vec<Vec<Ev>> {
    // inputs are subjects: they swallow everything after their own terminal
    match side {
      Side::A if self.a_done => return vec![vec![]],
      Side::B if self.b_done => return vec![vec![]],
      _ => {}
    }
    if ev.is_terminal() {
      match side {
        Side::A => self.a_done = true,
        Side::B => self.b_done = true,
      }
    }
    if self.out_done {
      return vec![vec![]];
    }
    let both_done = self.a_done && self.b_done;
    let same_err_type = !matches!(self.op, Op::TakeUntil | Op::SkipUntil);
    // errors
    if let Ev::Err(e) = ev {
      if side == Side::A || same_err_type {
        return vec![vec![Ev::Err(*e)]];
      } else {
        // notifier error of take_until / skip_until: not forwarded
        return vec![vec![]];
      }
    }
    match self.op {
      Op::Merge => match ev {
        Ev::Next(v) => vec![vec![Ev::Next(v.clone())]],
        _ => {
          if both_done {
            vec![vec![Ev::Complete]]
          } else {
            vec![vec![]]
          }
        }
      },
      Op::Zip => match ev {
        Ev::Next(v) => {
          let mut out = vec![];
          match side {
            Side::A => {
              if !self.qb.is_empty() {
                out.push(Ev::Next(Val::pair(v.clone(), self.qb.remove(0))));
              } else {
                self.qa.push(v.clone());
              }
            }
            Side::B => {
              if !self.qa.is_empty() {
                out.push(Ev::Next(Val::pair(self.qa.remove(0), v.clone())));
              } else {
                self.qb.push(v.clone());
              }
            }
          }
          // completion is allowed as soon as no further pair can form
          let no_more = (self.a_done && self.qa.is_empty()) || (self.b_done && self.qb.is_empty());
          if no_more {
            let mut with_c = out.clone();
            with_c.push(Ev::Complete);
            vec![out, with_c]
          } else {
            vec![out]
          }
        }
        _ => {
          let no_more = (self.a_done && self.qa.is_empty()) || (self.b_done && self.qb.is_empty());
          if both_done {
            vec![vec![Ev::Complete]]
          } else if no_more {
            vec![vec![], vec![Ev::Complete]]
          } else {
            vec![vec![]]
          }
        }
      },
      Op::CombineLatest => match ev {
        Ev::Next(v) => {
          match side {
            Side::A => self.la = Some(v.clone()),
            Side::B => self.lb = Some(v.clone()),
          }
          match (&self.la, &self.lb) {
            (Some(a), Some(b)) => vec![vec![Ev::Next(Val::pair(a.clone(), b.clone()))]],
            _ => vec![vec![]],
          }
        }
        _ => {
          if both_done {
            vec![vec![Ev::Complete]]
          } else {
            // an input that completes without ever having emitted makes further
            // combinations impossible: completing then is allowed (not required);
            // completing while the other side can still combine with this
            // side's latest value would lose combinations
            let never_emitted = match side {
              Side::A => self.la.is_none(),
              Side::B => self.lb.is_none(),
            };
            if never_emitted {
              vec![vec![], vec![Ev::Complete]]
            } else {
              vec![vec![]]
            }
          }
        }
      },
      Op::WithLatestFrom => match (side, ev) {
        (Side::B, Ev::Next(v)) => {
          self.lb = Some(v.clone());
          vec![vec![]]
        }
        (Side::A, Ev::Next(v)) => match &self.lb {
          Some(b) => vec![vec![Ev::Next(Val::pair(v.clone(), b.clone()))]],
          None => vec![vec![]],
        },
        (Side::A, _) => vec![vec![Ev::Complete]],
        (Side::B, _) => vec![vec![]],
      },
      Op::TakeUntil => match (side, ev) {
        (Side::A, Ev::Next(v)) => vec![vec![Ev::Next(v.clone())]],
        (Side::A, _) => vec![vec![Ev::Complete]],
        (Side::B, Ev::Next(_)) => vec![vec![Ev::Complete]],
        (Side::B, _) => vec![vec![]],
      },
      Op::SkipUntil => match (side, ev) {
        (Side::A, Ev::Next(v)) => {
          if self.open {
            vec![vec![Ev::Next(v.clone())]]
          } else {
            vec![vec![]]
          }
        }
        (Side::A, _) => vec![vec![Ev::Complete]],
        (Side::B, Ev::Next(_)) => {
          self.open = true;
          vec![vec![]]
        }
        (Side::B, _) => vec![vec![]],
      },
      Op::Sample => match (side, ev) {
        (Side::A, Ev::Next(v)) => {
          self.pending = Some(v.clone());
          vec![vec![]]
        }
        (Side::A, _) => vec![vec![Ev::Complete]],
        (Side::B, Ev::Next(_)) => match self.pending.take() {
          Some(v) => vec![vec![Ev::Next(v)]],
          None => vec![vec![]],
        },
        (Side::B, _) => {
          // sampler completion: the documented flush is allowed, not required
          match self.pending.clone() {
            Some(v) => {
              // if it is flushed it must not be released again later
              vec![vec![], vec![Ev::Next(v)]]
            }
            None => vec![vec![]],
          }
        }
      },
      Op::Buffer => match (side, ev) {
        (Side::A, Ev::Next(v)) => {
          self.gathered.push(v.clone());
          vec![vec![]]
        }
        (Side::A, _) => {
          let g = std::mem::take(&mut self.gathered);
          if g.is_empty() {
            vec![vec![Ev::Complete]]
          } else {
            vec![vec![Ev::Next(Val::L(g)), Ev::Complete]]
          }
        }
        (Side::B, Ev::Next(_)) => {
          let g = std::mem::take(&mut self.gathered);
          if g.is_empty() {
            vec![vec![]]
          } else {
            vec![vec![Ev::Next(Val::L(g))]]
          }
        }
        (Side::B, _) => {
          // notifier completion: silent in the statement; either nothing, or
          // flush-and-complete
          let g = self.gathered.clone();
          if g.is_empty() {
            vec![vec![], vec![Ev::Complete]]
          } else {
            vec![vec![], vec![Ev::Next(Val::L(g)), Ev::Complete]]
          }
        }
      },
    }
  }

  /// bring the model in line with the alternative the implementation took
  fn commit(&mut self, side: Side, ev: &Ev, out: &[Ev]) {
    if out.iter().any(|e| e.is_terminal()) {
      self.out_done = true;
    }
    if self.op == Op::Sample && side == Side::B && ev.is_terminal() && !out.is_empty() {
      self.pending = None;
    }
  }
}

impl Scenario for C04 {
  fn name(&self) -> &'static str {
    "c04.des"
  }
  fn weight(&self) -> usize {
    5
  }
  fn components(&self) -> (&'static [&'static str], &'static [&'static str]) {
    (
      &["ops/merge.rs", "ops/zip.rs", "ops/combine_latest.rs", "ops/with_latest_from.rs", "ops/take_until.rs", "ops/skip_until.rs", "ops/sample.rs", "ops/buffer.rs (notifier form)", "Subject/SubjectThreads inputs"],
      &[],
    )
  }
  fn generate(&self, rng: &mut Rng, tier: Tier) -> Value {
    let op = *rng.pick(&[Op::Merge, Op::Zip, Op::CombineLatest, Op::WithLatestFrom, Op::TakeUntil, Op::SkipUntil, Op::Sample, Op::Buffer]);
    let deep = deepen(rng, tier);
    let len = rng.range(2, 12 * deep);
    let mut script = Vec::new();
    let mut term = [false, false];
    for i in 0..len {
      let side = if rng.chance(1, 2) { Side::A } else { Side::B };
      let si = (side == Side::B) as usize;
      // terminals get likelier towards the end; events after the input's own
      // terminal are generated on purpose (fault: post-terminal emission)
      let tw = if i * 2 >= len { 3 } else { 1 };
      let ev = match rng.weighted(&[10, if term[si] { 1 } else { tw }, if term[si] { 1 } else { tw + 1 }]) {
        0 => In::Next,
        1 => In::Err,
        _ => In::Complete,
      };
      if ev != In::Next {
        term[si] = true;
      }
      script.push((side, ev));
    }
    let mut cold = |rng: &mut Rng| -> Vec<In> {
      if !rng.chance(1, 3) {
        return vec![];
      }
      let mut v: Vec<In> = (0..rng.below(4)).map(|_| In::Next).collect();
      match rng.below(4) {
        0 | 1 => v.push(In::Complete),
        2 => v.push(In::Err),
        _ => {}
      }
      v
    };
    let (cold_a, cold_b) = (cold(rng), cold(rng));
    serde_json::to_value(Case { op, threads_flavour: op != Op::Buffer && rng.chance(1, 2), script, cold_a, cold_b, polite_a: rng.chance(1, 2), polite_b: rng.chance(1, 2) }).unwrap()
  }

  fn run(&self, case: &Value) -> Result<Outcome, String> {
    let case: Case = serde_json::from_value(case.clone()).map_err(|e| e.to_string())?;
    if case.op == Op::Buffer && case.threads_flavour {
      return Err("buffer has no _threads form".into());
    }
    let valid_cold = |c: &Vec<In>| c.len() <= 5 && c.iter().rev().skip(1).all(|e| *e == In::Next);
    if !valid_cold(&case.cold_a) || !valid_cold(&case.cold_b) {
      return Err("cold prefix: items then at most one terminal".into());
    }
    let w = World::new();
    let log = ProbeLog::new(false);
    let p = Probe(log.clone());
    let tl: Timeline = Default::default();
    let (mut na, mut nb) = (0i64, 0i64);
    let mut mk = |side: Side, inp: &In| -> Ev {
      match (side, inp) {
        (Side::A, In::Next) => {
          na += 1;
          Ev::Next(Val::I(1000 + na))
        }
        (Side::B, In::Next) => {
          nb += 1;
          Ev::Next(Val::I(2000 + nb))
        }
        (_, In::Err) => Ev::Err(if side == Side::A { 1 } else { 2 }),
        (_, In::Complete) => Ev::Complete,
      }
    };
    let pa: Vec<Ev> = case.cold_a.iter().map(|i| mk(Side::A, i)).collect();
    let pb: Vec<Ev> = case.cold_b.iter().map(|i| mk(Side::B, i)).collect();
    // inputs
    let mut la = Subject::<'static, Val, E>::default();
    let mut lb = Subject::<'static, Val, E>::default();
    let mut lbu = Subject::<'static, (), E>::default();
    let mut sa = SubjectThreads::<Val, E>::default();
    let mut sb = SubjectThreads::<Val, E>::default();
    let pair = |a: Val, b: Val| Val::pair(a, b);
    fn id(v: Val) -> Val {
      v
    }
    fn unit(_: Val) {}
    let _sub: Box<dyn std::any::Any> = if !case.threads_flavour {
      let a = ColdHot { prefix: pa, hot: la.clone(), side: Side::A, tl: tl.clone(), polite: case.polite_a, conv: id as fn(Val) -> Val };
      let b = ColdHot { prefix: pb.clone(), hot: lb.clone(), side: Side::B, tl: tl.clone(), polite: case.polite_b, conv: id as fn(Val) -> Val };
      match case.op {
        Op::Merge => Box::new(a.merge(b).actual_subscribe(p)),
        Op::Zip => Box::new(a.zip(b).map(|(x, y)| Val::pair(x, y)).actual_subscribe(p)),
        Op::CombineLatest => Box::new(a.combine_latest(b, pair).actual_subscribe(p)),
        Op::WithLatestFrom => Box::new(a.with_latest_from(b).map(|(x, y)| Val::pair(x, y)).actual_subscribe(p)),
        Op::TakeUntil => Box::new(a.take_until(b).actual_subscribe(p)),
        Op::SkipUntil => Box::new(a.skip_until(b).actual_subscribe(p)),
        Op::Sample => Box::new(a.sample(b).actual_subscribe(p)),
        Op::Buffer => {
          let bu = ColdHot { prefix: pb, hot: lbu.clone(), side: Side::B, tl: tl.clone(), polite: case.polite_b, conv: unit as fn(Val) };
          Box::new(a.buffer(bu).map(Val::L).actual_subscribe(p))
        }
      }
    } else {
      let a = ColdHot { prefix: pa, hot: sa.clone(), side: Side::A, tl: tl.clone(), polite: case.polite_a, conv: id as fn(Val) -> Val };
      let b = ColdHot { prefix: pb, hot: sb.clone(), side: Side::B, tl: tl.clone(), polite: case.polite_b, conv: id as fn(Val) -> Val };
      match case.op {
        Op::Merge => Box::new(a.merge_threads(b).actual_subscribe(p)),
        Op::Zip => Box::new(a.zip_threads(b).map(|(x, y)| Val::pair(x, y)).actual_subscribe(p)),
        Op::CombineLatest => Box::new(a.combine_latest_threads(b, pair).actual_subscribe(p)),
        Op::WithLatestFrom => Box::new(a.with_latest_from_threads(b).map(|(x, y)| Val::pair(x, y)).actual_subscribe(p)),
        Op::TakeUntil => Box::new(a.take_until_threads(b).actual_subscribe(p)),
        Op::SkipUntil => Box::new(a.skip_until_threads(b).actual_subscribe(p)),
        Op::Sample => Box::new(a.sample_threads(b).actual_subscribe(p)),
        Op::Buffer => unreachable!(),
      }
    };
    let cold_events = tl.lock().unwrap().len() as u64;
    // hot part of the timeline
    for (side, inp) in &case.script {
      let ev = mk(*side, inp);
      tl.lock().unwrap().push((shared().stamp(), *side, ev.clone()));
      match (side, &ev, case.threads_flavour, case.op == Op::Buffer) {
        (Side::A, Ev::Next(v), false, _) => la.next(v.clone()),
        (Side::A, Ev::Err(e), false, _) => la.clone().error(*e),
        (Side::A, Ev::Complete, false, _) => la.clone().complete(),
        (Side::B, Ev::Next(_), false, true) => lbu.next(()),
        (Side::B, Ev::Err(e), false, true) => lbu.clone().error(*e),
        (Side::B, Ev::Complete, false, true) => lbu.clone().complete(),
        (Side::B, Ev::Next(v), false, false) => lb.next(v.clone()),
        (Side::B, Ev::Err(e), false, false) => lb.clone().error(*e),
        (Side::B, Ev::Complete, false, false) => lb.clone().complete(),
        (Side::A, Ev::Next(v), true, _) => sa.next(v.clone()),
        (Side::A, Ev::Err(e), true, _) => sa.clone().error(*e),
        (Side::A, Ev::Complete, true, _) => sa.clone().complete(),
        (Side::B, Ev::Next(v), true, _) => sb.next(v.clone()),
        (Side::B, Ev::Err(e), true, _) => sb.clone().error(*e),
        (Side::B, Ev::Complete, true, _) => sb.clone().complete(),
      }
    }
    // judge the recorded timeline
    let mut m = Model {
      op: case.op,
      a_done: false,
      b_done: false,
      out_done: false,
      qa: vec![],
      qb: vec![],
      la: None,
      lb: None,
      open: false,
      pending: None,
      gathered: vec![],
    };
    let site = format!("{:?}{}", case.op, if case.threads_flavour { "_threads" } else { "" });
    let mut violation = None;
    let mut trace = String::new();
    let mut post_terminal = 0u64;
    let timeline = tl.lock().unwrap().clone();
    let recs = log.records();
    if let Some(r) = recs.iter().find(|r| timeline.first().map_or(true, |t| r.seq < t.0)) {
      violation = Some(Violation { rule: "c04.unexpected-output".into(), site: site.clone(), detail: format!("{} was delivered before any input had emitted", fmt_ev(&r.ev)) });
    }
    for (i, (stamp, side, ev)) in timeline.iter().enumerate() {
      if violation.is_some() {
        break;
      }
      if matches!((side, m.a_done, m.b_done), (Side::A, true, _) | (Side::B, _, true)) {
        post_terminal += 1;
      }
      let cold = (i as u64) < cold_events;
      trace.push_str(&format!("{}{}{} ", if *side == Side::A { "a:" } else { "b:" }, fmt_ev(ev), if cold { "(at subscription)" } else { "" }));
      let until = timeline.get(i + 1).map_or(u64::MAX, |t| t.0);
      let out: Vec<Ev> = recs.iter().filter(|r| r.seq > *stamp && r.seq < until).map(|r| r.ev.clone()).collect();
      let accept = m.step(*side, ev);
      if !accept.contains(&out) {
        violation = Some(Violation {
          rule: "c04.unexpected-output".into(),
          site: site.clone(),
          detail: format!(
            "timeline `{}`: the last event produced [{}], the definition allows {}",
            trace.trim(),
            fmt_trace(&out),
            accept.iter().map(|a| format!("[{}]", fmt_trace(a))).collect::<Vec<_>>().join(" or ")
          ),
        });
        break;
      }
      m.commit(*side, ev, &out);
    }
    let evs = log.events();
    let h = hash_mix(hash_str(&trace), hash_str(&fmt_trace(&evs)));
    drop(_sub);
    drop(w);
    Ok(Outcome {
      violation,
      trace_hash: h,
      nontrivial: case.script.iter().any(|(s, _)| *s == Side::A) && case.script.iter().any(|(s, _)| *s == Side::B),
      sim_ns: 0,
      steps: case.script.len() as u64,
      faults: vec![("event_after_input_terminal", post_terminal), ("input_emits_inside_its_subscription(cold/replaying input)", cold_events)],
      reach: vec![],
      resolved: None,
      sample: format!("{}: {} => [{}]", site, trace.trim(), fmt_trace(&evs)),
    })
  }
}

// ------------------------------------------------------------------- threads
//
// The two inputs are driven by two simulated threads. The merged timeline is no
// longer observable, so the oracle is linearizability against the same
// acceptor: some order-preserving interleaving of the two scripts that respects
// real time (an event that returned before another was invoked comes first)
// must explain the delivered sequence.

#[derive(Clone, Debug, Serialize, Deserialize)]
pub struct TCase {
  op: Op,
  script_a: Vec<In>,
  script_b: Vec<In>,
  sched: SchedSpec,
}

pub struct C04Threads;

#[derive(Clone)]
struct EvRec {
  ev: Ev,
  invoke: u64,
  ret: u64,
}

fn linearizable(m: &Model, a: &[EvRec], b: &[EvRec], ia: usize, ib: usize, out: &[Ev], pos: usize, budget: &mut u32) -> bool {
  if *budget == 0 {
    return true; // search budget exhausted: undecided counts as explained
  }
  *budget -= 1;
  if ia == a.len() && ib == b.len() {
    return pos == out.len();
  }
  for side in [Side::A, Side::B] {
    let (mine, other, i, j) = if side == Side::A { (a, b, ia, ib) } else { (b, a, ib, ia) };
    if i >= mine.len() {
      continue;
    }
    // real time: a pending event of the other thread that had returned before
    // this one was invoked must be linearized first
    if j < other.len() && other[j].ret < mine[i].invoke {
      continue;
    }
    let mut m2 = m.clone();
    for alt in m2.clone().step(side, &mine[i].ev) {
      if out.len() >= pos + alt.len() && out[pos..pos + alt.len()] == alt[..] {
        let mut m3 = m2.clone();
        let _ = m3.step(side, &mine[i].ev);
        m3.commit(side, &mine[i].ev, &alt);
        let (na, nb) = if side == Side::A { (ia + 1, ib) } else { (ia, ib + 1) };
        if linearizable(&m3, a, b, na, nb, out, pos + alt.len(), budget) {
          return true;
        }
      }
    }
    let _ = &mut m2;
  }
  false
}

impl Scenario for C04Threads {
  fn name(&self) -> &'static str {
    "c04.threads"
  }
  fn components(&self) -> (&'static [&'static str], &'static [&'static str]) {
    (&["merge_threads, zip_threads, combine_latest_threads, with_latest_from_threads, take_until_threads, skip_until_threads, sample_threads over SubjectThreads inputs (MutArc locks interleaved)"], &["OS thread scheduling (baton)"])
  }
  fn generate(&self, rng: &mut Rng, _tier: Tier) -> Value {
    let op = *rng.pick(&[Op::Merge, Op::Zip, Op::CombineLatest, Op::WithLatestFrom, Op::TakeUntil, Op::SkipUntil, Op::Sample]);
    let mut script = |rng: &mut Rng| -> Vec<In> {
      let n = rng.range(1, 4);
      let mut v = Vec::new();
      for i in 0..n {
        let last = i + 1 == n;
        v.push(match rng.weighted(&[8, if last { 3 } else { 1 }, if last { 4 } else { 1 }]) {
          0 => In::Next,
          1 => In::Err,
          _ => In::Complete,
        });
      }
      v
    };
    let (script_a, script_b) = (script(rng), script(rng));
    let strategy = match rng.below(3) {
      0 => Strategy::Random,
      1 => Strategy::Seq { den: 3 },
      _ => Strategy::Pct { d: rng.range(1, 3) as u8, k: 40 },
    };
    serde_json::to_value(TCase { op, script_a, script_b, sched: SchedSpec::Seeded { seed: rng.next_u64(), strategy } }).unwrap()
  }
  fn run(&self, case: &Value) -> Result<Outcome, String> {
    let case: TCase = serde_json::from_value(case.clone()).map_err(|e| e.to_string())?;
    if case.op == Op::Buffer || case.script_a.len() > 6 || case.script_b.len() > 6 {
      return Err("bad shape".into());
    }
    let shr = Shared::new();
    let w = World::with_shared(shr.clone());
    let log = ProbeLog::new(true);
    let p = Probe(log.clone());
    let sa = SubjectThreads::<Val, E>::default();
    let sb = SubjectThreads::<Val, E>::default();
    let pair = |a: Val, b: Val| Val::pair(a, b);
    let sub: Box<dyn std::any::Any> = {
      let (a, b) = (sa.clone(), sb.clone());
      match case.op {
        Op::Merge => Box::new(a.merge_threads(b).actual_subscribe(p)),
        Op::Zip => Box::new(a.zip_threads(b).map(|(x, y)| Val::pair(x, y)).actual_subscribe(p)),
        Op::CombineLatest => Box::new(a.combine_latest_threads(b, pair).actual_subscribe(p)),
        Op::WithLatestFrom => Box::new(a.with_latest_from_threads(b).map(|(x, y)| Val::pair(x, y)).actual_subscribe(p)),
        Op::TakeUntil => Box::new(a.take_until_threads(b).actual_subscribe(p)),
        Op::SkipUntil => Box::new(a.skip_until_threads(b).actual_subscribe(p)),
        Op::Sample => Box::new(a.sample_threads(b).actual_subscribe(p)),
        Op::Buffer => unreachable!(),
      }
    };
    let recs_ab: [Arc<std::sync::Mutex<Vec<EvRec>>>; 2] = [Default::default(), Default::default()];
    let ts = TSim::new(shr.clone(), &case.sched, 2, 0, 8_000);
    let mut bodies: Vec<Body> = Vec::new();
    for (t, script) in [case.script_a.clone(), case.script_b.clone()].into_iter().enumerate() {
      let mut subj = Some(if t == 0 { sa.clone() } else { sb.clone() });
      let recs = recs_ab[t].clone();
      bodies.push(Box::new(move || {
        let mut n = 0i64;
        for inp in script {
          let sh = shared();
          let ev = match inp {
            In::Next => {
              n += 1;
              Ev::Next(Val::I(1000 * (t as i64 + 1) + n))
            }
            In::Err => Ev::Err(t as i32 + 1),
            In::Complete => Ev::Complete,
          };
          let invoke = sh.stamp();
          match (&ev, subj.as_mut()) {
            (Ev::Next(v), Some(s)) => s.next(v.clone()),
            (Ev::Err(e), Some(_)) => subj.take().unwrap().error(*e),
            (Ev::Complete, Some(_)) => subj.take().unwrap().complete(),
            (_, None) => {}
          }
          let ret = sh.stamp();
          recs.lock().unwrap().push(EvRec { ev, invoke, ret });
          harness_yield("between-events");
        }
      }));
    }
    let rep = ts.run(bodies);
    let site = format!("{:?}_threads", case.op);
    let out = log.events();
    let a = recs_ab[0].lock().unwrap().clone();
    let b = recs_ab[1].lock().unwrap().clone();
    let mut violation = None;
    if let Some(d) = &rep.deadlock {
      violation = Some(Violation { rule: "c04.deadlock".into(), site: site.clone(), detail: d.clone() });
    } else if rep.budget_overrun {
      violation = Some(Violation { rule: "c04.livelock".into(), site: site.clone(), detail: "step budget exhausted".into() });
    } else if let Some((t, m)) = rep.panics.first() {
      violation = Some(Violation { rule: "c04.panic".into(), site: site.clone(), detail: format!("thread {} panicked: {}", t, m) });
    } else {
      let m = Model { op: case.op, a_done: false, b_done: false, out_done: false, qa: vec![], qb: vec![], la: None, lb: None, open: false, pending: None, gathered: vec![] };
      let mut budget = 200_000u32;
      if !linearizable(&m, &a, &b, 0, 0, &out, 0, &mut budget) {
        let show = |r: &[EvRec], n: &str| r.iter().map(|e| format!("{}:{}[{}..{}]", n, fmt_ev(&e.ev), e.invoke, e.ret)).collect::<Vec<_>>().join(" ");
        violation = Some(Violation {
          rule: "c04.not-linearizable".into(),
          site: site.clone(),
          detail: format!("thread A did `{}`, thread B did `{}`; the subscriber saw [{}], which no interleaving of the two scripts (respecting real-time order) explains", show(&a, "a"), show(&b, "b"), fmt_trace(&out)),
        });
      }
    }
    let mut resolved = case.clone();
    resolved.sched = SchedSpec::Explicit(rep.decisions.clone());
    let h = hash_mix(rep.trace_hash, hash_str(&fmt_trace(&out)));
    drop(sub);
    drop(sa);
    drop(sb);
    drop(w);
    Ok(Outcome {
      violation,
      trace_hash: h,
      nontrivial: rep.multi_choice > 0,
      sim_ns: 0,
      steps: rep.steps,
      faults: vec![("preemption_at_lock_point", rep.preemptions), ("lock_contention", rep.contentions)],
      reach: vec![("try_lock_contention_observed", (rep.contentions > 0) as u64)],
      resolved: Some(serde_json::to_value(resolved).unwrap()),
      sample: format!("{} a={:?} b={:?} decisions={} => [{}]", site, case.script_a, case.script_b, rep.decisions.len(), fmt_trace(&out)),
    })
  }
}

pub fn check_def() -> PropertyCheck {
  PropertyCheck {
    id: "C04",
    scenarios: vec![Box::new(C04), Box::new(C04Threads)],
    runs: (400_000, 40_000_000),
    rule: "case = operator (merge, zip, combine_latest, with_latest_from, take_until, skip_until, sample, buffer; local and _threads) + merged timeline of <=12 events of two hot inputs (next/error/complete at any position, incl. events after the input's own terminal); non-trivial = both inputs speak; distinct = distinct (case, behaviour) hashes; thread case = the two inputs of a _threads operator driven by two simulated threads (<=4 events each) under a seeded lock-level schedule, judged by linearizability against the same acceptor (some real-time-respecting interleaving of the two scripts must explain the delivered sequence)",
    assumptions: vec!["where the statement is silent (early completion of zip/combine_latest, sampler/notifier completion) every behaviour it allows is accepted"],
  }
}
