//! C12 — BehaviorSubject hands every new subscriber the current value first.

use crate::framework::*;
use crate::probe::*;
use crate::rng::Rng;
use crate::threadsim::*;
use crate::world::*;
use rxrust::prelude::*;
use serde::{Deserialize, Serialize};
use serde_json::Value;
use std::sync::{Arc, Mutex};

type BHook = Arc<Mutex<Option<crate::props::c06::AssertSend<Box<dyn FnMut()>>>>>;

/// probe that can run a one-shot hook from inside its next callback
#[derive(Clone)]
pub struct BProbe {
  log: Arc<ProbeLog>,
  hook: BHook,
}
impl BProbe {
  fn new() -> Self {
    BProbe { log: ProbeLog::new(false), hook: Arc::new(Mutex::new(None)) }
  }
}
impl Observer<i64, E> for BProbe {
  fn next(&mut self, v: i64) {
    Observer::<i64, E>::next(&mut Probe(self.log.clone()), v);
    let h = self.hook.lock().unwrap().take();
    if let Some(mut h) = h {
      (h.0)();
    }
  }
  fn error(self, e: E) {
    Observer::<i64, E>::error(Probe(self.log.clone()), e)
  }
  fn complete(self) {
    Observer::<i64, E>::complete(Probe(self.log.clone()))
  }
  fn is_finished(&self) -> bool {
    false
  }
}

type Store = Arc<Mutex<Vec<(usize, crate::props::c06::AssertSend<Box<dyn crate::props::c06::SubHandle>>)>>>;

type BLocal = BehaviorSubject<i64, Subject<'static, i64, E>>;
type BShared = BehaviorSubject<i64, SubjectThreads<i64, E>>;

#[derive(Clone, Debug, Serialize, Deserialize, PartialEq)]
pub enum Op {
  Next,
  NextBy,
  CloneHandle,
  Subscribe,
  UnsubOne(usize),
  Peek,
  Complete,
  Error,
  /// arm subscriber k: inside its next callback it peeks and subscribes a
  /// fresh subscriber (who must be handed the item being delivered)
  ArmInside(usize),
  /// `Subscription::unsubscribe` on a handle of the subject itself: nothing is
  /// delivered any more, yet the value keeps being stored and a new subscriber
  /// is still handed the current one
  UnsubSubject,
}

#[derive(Clone, Debug, Serialize, Deserialize)]
pub struct Step {
  op: Op,
  via: usize,
}

#[derive(Clone, Debug, Serialize, Deserialize)]
pub struct Case {
  threads_flavour: bool,
  init: i64,
  steps: Vec<Step>,
}

trait BDriver {
  fn next(&mut self, via: usize, v: i64);
  fn next_by(&mut self, via: usize, add: i64);
  fn clone_handle(&mut self, via: usize);
  fn subscribe(&mut self, via: usize, p: BProbe) -> Box<dyn crate::props::c06::SubHandle>;
  /// closure that peeks (into `peeked`) and subscribes `p` to a clone
  fn inside_fn(&self, via: usize, p: BProbe, k: usize, store: Store, peeked: Arc<Mutex<Vec<i64>>>) -> Box<dyn FnMut()>;
  fn peek(&self, via: usize) -> i64;
  fn complete(&mut self, via: usize);
  fn error(&mut self, via: usize, e: E);
  fn unsubscribe_subject(&mut self, via: usize);
  fn handles(&self) -> usize;
}

macro_rules! bdriver {
  ($name:ident, $ty:ty) => {
    struct $name {
      hs: Vec<Option<$ty>>,
    }
    impl $name {
      fn pick(&self, via: usize) -> usize {
        let live: Vec<usize> = (0..self.hs.len()).filter(|i| self.hs[*i].is_some()).collect();
        live[via % live.len()]
      }
    }
    impl BDriver for $name {
      fn next(&mut self, via: usize, v: i64) {
        let i = self.pick(via);
        self.hs[i].as_mut().unwrap().next(v)
      }
      fn next_by(&mut self, via: usize, add: i64) {
        let i = self.pick(via);
        Behavior::<i64, E>::next_by(self.hs[i].as_mut().unwrap(), move |x| x + add)
      }
      fn clone_handle(&mut self, via: usize) {
        let i = self.pick(via);
        let c = self.hs[i].as_ref().unwrap().clone();
        self.hs.push(Some(c));
      }
      fn subscribe(&mut self, via: usize, p: BProbe) -> Box<dyn crate::props::c06::SubHandle> {
        let i = self.pick(via);
        Box::new(self.hs[i].as_ref().unwrap().clone().actual_subscribe(p))
      }
      fn inside_fn(&self, via: usize, p: BProbe, k: usize, store: Store, peeked: Arc<Mutex<Vec<i64>>>) -> Box<dyn FnMut()> {
        let i = self.pick(via);
        let h = self.hs[i].as_ref().unwrap().clone();
        let mut slot = Some((h, p));
        Box::new(move || {
          if let Some((h, p)) = slot.take() {
            peeked.lock().unwrap().push(Behavior::<i64, E>::peek(&h));
            let u = h.actual_subscribe(p);
            store.lock().unwrap().push((k, crate::props::c06::AssertSend(Box::new(u))));
          }
        })
      }
      fn peek(&self, via: usize) -> i64 {
        let i = self.pick(via);
        Behavior::<i64, E>::peek(self.hs[i].as_ref().unwrap())
      }
      fn complete(&mut self, via: usize) {
        let i = self.pick(via);
        Observer::<i64, E>::complete(self.hs[i].take().unwrap())
      }
      fn error(&mut self, via: usize, e: E) {
        let i = self.pick(via);
        self.hs[i].take().unwrap().error(e)
      }
      fn unsubscribe_subject(&mut self, via: usize) {
        let i = self.pick(via);
        Subscription::unsubscribe(self.hs[i].take().unwrap())
      }
      fn handles(&self) -> usize {
        self.hs.iter().filter(|h| h.is_some()).count()
      }
    }
  };
}
bdriver!(DL, BLocal);
bdriver!(DS, BShared);

pub struct C12Des;

impl Scenario for C12Des {
  fn name(&self) -> &'static str {
    "c12.des"
  }
  fn weight(&self) -> usize {
    2
  }
  fn components(&self) -> (&'static [&'static str], &'static [&'static str]) {
    (&["subject/behavior_subject.rs", "behavior.rs (peek, next_by)", "subject.rs"], &[])
  }
  fn generate(&self, rng: &mut Rng, tier: Tier) -> Value {
    let deep = deepen(rng, tier);
    let len = rng.range(2, 12 * deep);
    let mut steps = Vec::new();
    let mut subs = 0;
    for i in 0..len {
      let late = i + 3 >= len;
      let op = match rng.weighted(&[6, 3, 2, 5, 2, 4, if late { 2 } else { 0 }, if late { 2 } else { 0 }, 2, if i * 2 >= len { 1 } else { 0 }]) {
        0 => Op::Next,
        1 => Op::NextBy,
        2 => Op::CloneHandle,
        3 => {
          subs += 1;
          Op::Subscribe
        }
        4 => Op::UnsubOne(rng.below(subs.max(1))),
        5 => Op::Peek,
        6 => Op::Complete,
        7 => Op::Error,
        9 => Op::UnsubSubject,
        _ => {
          subs += 1;
          Op::ArmInside(rng.below(subs.max(1)))
        }
      };
      steps.push(Step { op, via: rng.below(3) });
    }
    serde_json::to_value(Case { threads_flavour: rng.chance(1, 2), init: rng.below(5) as i64, steps }).unwrap()
  }
  fn run(&self, case: &Value) -> Result<Outcome, String> {
    let case: Case = serde_json::from_value(case.clone()).map_err(|e| e.to_string())?;
    let w = World::new();
    let mut d: Box<dyn BDriver> = if case.threads_flavour {
      Box::new(DS { hs: vec![Some(BShared::new(case.init))] })
    } else {
      Box::new(DL { hs: vec![Some(BLocal::new(case.init))] })
    };
    let site = if case.threads_flavour { "BehaviorSubject<SubjectThreads>" } else { "BehaviorSubject<Subject>" }.to_string();
    let mut value = case.init;
    let mut live: Vec<usize> = vec![];
    let mut finished = false;
    let mut model: Vec<Vec<Ev>> = vec![];
    let mut logs: Vec<Arc<ProbeLog>> = vec![];
    let mut probes: Vec<BProbe> = vec![];
    let mut handles: Vec<(usize, Box<dyn crate::props::c06::SubHandle>)> = vec![];
    let store: Store = Arc::new(Mutex::new(Vec::new()));
    let peeked: Arc<Mutex<Vec<i64>>> = Arc::new(Mutex::new(Vec::new()));
    // (trigger subscriber, subscriber that joins from inside its callback)
    let mut armed: Vec<(usize, usize)> = Vec::new();
    let mut inside_joins = 0u64;
    let mut violation = None;
    let mut trace = String::new();
    let mut n = 100i64;
    let mut post_terminal = 0u64;
    for st in &case.steps {
      if d.handles() == 0 {
        break;
      }
      let step = std::panic::catch_unwind(std::panic::AssertUnwindSafe(|| match &st.op {
        Op::Next | Op::NextBy => {
          let v = if st.op == Op::Next {
            n += 1;
            d.next(st.via, n);
            n
          } else {
            d.next_by(st.via, 1000);
            value + 1000
          };
          value = v;
          if finished {
            post_terminal += 1;
          } else {
            for k in &live {
              model[*k].push(Ev::Next(Val::I(v)));
            }
            // subscribers joining from inside a callback of this emission are handed
            // the item being delivered as their current value and join for later ones
            let snapshot = live.clone();
            let mut fired = Vec::new();
            armed.retain(|(trig, newk)| {
              if snapshot.contains(trig) {
                fired.push(*newk);
                false
              } else {
                true
              }
            });
            for nk in fired {
              model[nk].push(Ev::Next(Val::I(v)));
              live.push(nk);
              inside_joins += 1;
              let pk = peeked.lock().unwrap().pop();
              if pk != Some(v) && violation.is_none() {
                violation = Some(Violation { rule: "c12.peek".into(), site: site.clone(), detail: format!("`{}` next({}): peek() from inside a subscriber callback during the delivery returned {:?}", trace.trim(), v, pk) });
              }
            }
          }
          trace.push_str(&format!("next({}) ", v));
        }
        Op::CloneHandle => d.clone_handle(st.via),
        Op::Subscribe => {
          let k = logs.len();
          let bp = BProbe::new();
          logs.push(bp.log.clone());
          probes.push(bp.clone());
          model.push(vec![Ev::Next(Val::I(value))]);
          let h = d.subscribe(st.via, bp);
          handles.push((k, h));
          if !finished {
            live.push(k);
          } else {
            post_terminal += 1;
          }
          trace.push_str(&format!("sub{} ", k));
        }
        Op::UnsubOne(k) => {
          if let Some(pos) = handles.iter().position(|(id, _)| id == k) {
            let (_, h) = handles.remove(pos);
            h.unsub();
            live.retain(|x| x != k);
            armed.retain(|(t, _)| t != k);
            if let Some(p) = probes.get(*k) {
              p.hook.lock().unwrap().take();
            }
            trace.push_str(&format!("unsub{} ", k));
          } else {
            let pos = store.lock().unwrap().iter().position(|(id, _)| id == k);
            if let Some(pos) = pos {
              let (_, h) = store.lock().unwrap().remove(pos);
              h.0.unsub();
              live.retain(|x| x != k);
              trace.push_str(&format!("unsub{} ", k));
            }
          }
        }
        Op::ArmInside(k) => {
          if finished || armed.iter().any(|(t, _)| t == k) {
            return;
          }
          if let Some(trigger) = probes.get(*k).cloned() {
            if !live.contains(k) {
              return;
            }
            let nk = logs.len();
            let bp = BProbe::new();
            logs.push(bp.log.clone());
            probes.push(bp.clone());
            model.push(vec![]);
            let f = d.inside_fn(st.via, bp, nk, store.clone(), peeked.clone());
            *trigger.hook.lock().unwrap() = Some(crate::props::c06::AssertSend(f));
            armed.push((*k, nk));
            trace.push_str(&format!("arm{}→{} ", k, nk));
          }
        }
        Op::Peek => {
          let p = d.peek(st.via);
          trace.push_str(&format!("peek={} ", p));
          if p != value && violation.is_none() {
            violation = Some(Violation { rule: "c12.peek".into(), site: site.clone(), detail: format!("`{}`: peek() = {}, most recent value is {}", trace.trim(), p, value) });
          }
        }
        Op::UnsubSubject => {
          d.unsubscribe_subject(st.via);
          if !finished {
            live.clear();
            armed.clear();
            finished = true;
          } else {
            post_terminal += 1;
          }
          trace.push_str("unsubscribe-subject ");
        }
        Op::Complete | Op::Error => {
          if st.op == Op::Complete {
            d.complete(st.via)
          } else {
            d.error(st.via, 2)
          }
          if !finished {
            for k in &live {
              model[*k].push(if st.op == Op::Complete { Ev::Complete } else { Ev::Err(2) });
            }
            live.clear();
            finished = true;
          } else {
            post_terminal += 1;
          }
          trace.push_str(if st.op == Op::Complete { "complete " } else { "error " });
        }
      }));
      if let Err(pl) = step {
        if violation.is_none() {
          // BorrowMutError (local form) / self-deadlock on a cell it already holds (thread-safe form)
          violation = Some(Violation { rule: "c12.panic".into(), site: site.clone(), detail: format!("after `{}` the step {:?} panicked: {}", trace.trim(), st.op, panic_message(&*pl)) });
        }
        break;
      }
      if violation.is_none() {
        for (k, l) in logs.iter().enumerate() {
          let got = l.events();
          if got != model[k] {
            violation = Some(Violation {
              rule: "c12.model-mismatch".into(),
              site: site.clone(),
              detail: format!("after `{}` subscriber {} saw [{}], reference model says [{}]", trace.trim(), k, fmt_trace(&got), fmt_trace(&model[k])),
            });
            break;
          }
        }
      }
      if violation.is_some() {
        break;
      }
    }
    let mut h = hash_str(&trace);
    for l in &logs {
      h = hash_mix(h, hash_str(&fmt_trace(&l.events())));
    }
    handles.clear();
    store.lock().unwrap().clear();
    for p in &probes {
      p.hook.lock().unwrap().take();
    }
    drop(d);
    drop(w);
    Ok(Outcome {
      violation,
      trace_hash: h,
      nontrivial: logs.len() >= 1 && case.steps.len() >= 3,
      sim_ns: 0,
      steps: case.steps.len() as u64,
      faults: vec![("op_after_terminal", post_terminal), ("peek_and_subscribe_from_inside_a_callback", inside_joins)],
      reach: vec![],
      resolved: None,
      sample: format!("{} init={}: {} => {}", site, case.init, trace.trim(), logs.iter().enumerate().map(|(k, l)| format!("s{}=[{}]", k, fmt_trace(&l.events()))).collect::<Vec<_>>().join(" ")),
    })
  }
}

// ------------------------------------------------------------------- threads

#[derive(Clone, Debug, Serialize, Deserialize)]
pub struct TCase {
  /// items per producer thread
  producers: Vec<usize>,
  late_subscriber: bool,
  sched: SchedSpec,
  /// the producers call `next_by(|v| v + 1)` instead of `next(unique value)`:
  /// every increment must take effect (no late subscriber in this mode)
  #[serde(default)]
  by: bool,
  /// the producers call `next_by(move |_| unique value)`: what is stored and
  /// what is emitted must be that value, once (all rules of the `next` mode)
  #[serde(default)]
  by_const: bool,
}

pub struct C12Threads;

impl Scenario for C12Threads {
  fn name(&self) -> &'static str {
    "c12.threads"
  }
  fn components(&self) -> (&'static [&'static str], &'static [&'static str]) {
    (&["BehaviorSubject<_, SubjectThreads> (value cell + inner subject, MutArc locks interleaved)"], &["OS thread scheduling (baton)"])
  }
  fn generate(&self, rng: &mut Rng, _tier: Tier) -> Value {
    let np = rng.range(1, 2);
    let producers = (0..np).map(|_| rng.range(1, 3)).collect();
    let strategy = match rng.below(3) {
      0 => Strategy::Random,
      1 => Strategy::Seq { den: 3 },
      _ => Strategy::Pct { d: rng.range(1, 3) as u8, k: 40 },
    };
    let by = np == 2 && rng.chance(1, 4);
    let by_const = !by && rng.chance(1, 4);
    serde_json::to_value(TCase { producers, late_subscriber: !by && (np == 1 || rng.chance(2, 3)), sched: SchedSpec::Seeded { seed: rng.next_u64(), strategy }, by, by_const }).unwrap()
  }
  fn run(&self, case: &Value) -> Result<Outcome, String> {
    let case: TCase = serde_json::from_value(case.clone()).map_err(|e| e.to_string())?;
    if case.producers.is_empty() || case.producers.len() > 3 || case.producers.iter().any(|n| *n > 5) || (case.by && (case.late_subscriber || case.by_const)) {
      return Err("bad shape".into());
    }
    let shr = Shared::new();
    let w = World::with_shared(shr.clone());
    let b = BShared::new(0);
    let stable = ProbeLog::new(true);
    let _u0 = b.clone().actual_subscribe(Probe(stable.clone()));
    let late = ProbeLog::new(true);
    let nthreads = case.producers.len() + case.late_subscriber as usize;
    let ts = TSim::new(shr.clone(), &case.sched, nthreads, 0, 10_000);
    let mut bodies: Vec<Body> = Vec::new();
    for (t, n) in case.producers.iter().enumerate() {
      let mut b = b.clone();
      let n = *n;
      let by = case.by;
      let by_const = case.by_const;
      bodies.push(Box::new(move || {
        for i in 0..n {
          if by {
            Behavior::<i64, E>::next_by(&mut b, |v| v + 1);
          } else if by_const {
            let x = (t as i64 + 1) * 100 + i as i64;
            Behavior::<i64, E>::next_by(&mut b, move |_| x);
          } else {
            b.next((t as i64 + 1) * 100 + i as i64);
          }
          harness_yield("between-items");
        }
      }));
    }
    let held: Arc<Mutex<Option<SubscriberThreads<Probe>>>> = Arc::new(Mutex::new(None));
    if case.late_subscriber {
      let b = b.clone();
      let late = late.clone();
      let held = held.clone();
      bodies.push(Box::new(move || {
        harness_yield("before-subscribe");
        let u = b.actual_subscribe(Probe(late));
        *held.lock().unwrap() = Some(u);
      }));
    }
    let rep = ts.run(bodies);
    let peek = Behavior::<i64, E>::peek(&b);
    let site = format!("BehaviorSubject<SubjectThreads> producers={}{}", if case.producers.len() >= 2 { "many" } else { "one" }, if case.by { " next_by" } else if case.by_const { " next_by(const)" } else { "" });
    let order: Vec<i64> = stable.events().iter().filter_map(|e| if let Ev::Next(Val::I(i)) = e { Some(*i) } else { None }).collect();
    let late_items: Vec<i64> = late.events().iter().filter_map(|e| if let Ev::Next(Val::I(i)) = e { Some(*i) } else { None }).collect();
    let total: usize = case.producers.iter().sum();
    let mut violation = None;
    if let Some(d) = &rep.deadlock {
      violation = Some(Violation { rule: "c12.deadlock".into(), site: site.clone(), detail: d.clone() });
    } else if rep.budget_overrun {
      violation = Some(Violation { rule: "c12.livelock".into(), site: site.clone(), detail: "step budget exhausted".into() });
    } else if let Some((t, m)) = rep.panics.first() {
      violation = Some(Violation { rule: "c12.panic".into(), site: site.clone(), detail: format!("thread {} panicked: {}", t, m) });
    } else if order.len() != total + 1 || order[0] != 0 {
      violation = Some(Violation { rule: "c12.stable-subscriber".into(), site: site.clone(), detail: format!("stable subscriber saw {:?}, expected the initial value then all {} items", order, total) });
    } else if case.by && {
      let mut have: Vec<i64> = order[1..].to_vec();
      have.sort();
      have != (1..=total as i64).collect::<Vec<_>>()
    } {
      violation = Some(Violation { rule: "c12.next_by-lost-update".into(), site: site.clone(), detail: format!("{} calls of next_by(|v| v + 1) from {} threads, starting from 0: the subscribers saw {:?} - an increment was applied to a value that was no longer the most recent one (peek() = {})", total, case.producers.len(), order, peek) });
    } else if !case.by && {
      let mut want: Vec<i64> = case.producers.iter().enumerate().flat_map(|(t, n)| (0..*n).map(move |i| (t as i64 + 1) * 100 + i as i64)).collect();
      let mut have: Vec<i64> = order[1..].to_vec();
      want.sort();
      have.sort();
      want != have
    } {
      violation = Some(Violation { rule: "c12.stable-subscriber".into(), site: site.clone(), detail: format!("a subscriber present all along saw {:?}: not every item passed to next() exactly once", order) });
    } else if peek != *order.last().unwrap() {
      violation = Some(Violation {
        rule: "c12.peek-not-last".into(),
        site: site.clone(),
        detail: format!("all producers returned; subscribers observed the order {:?} but peek() = {} (not the item delivered last)", order, peek),
      });
    } else if case.late_subscriber {
      // first item of the late subscriber must be a value of the common order and
      // everything it receives afterwards must come later in that order, once
      if late_items.is_empty() {
        violation = Some(Violation { rule: "c12.late-no-current".into(), site: site.clone(), detail: "late subscriber received nothing".into() });
      } else {
        let pos: Vec<Option<usize>> = late_items.iter().map(|x| order.iter().position(|y| y == x)).collect();
        if pos.iter().any(|p| p.is_none()) {
          violation = Some(Violation { rule: "c12.late-unknown-item".into(), site: site.clone(), detail: format!("late subscriber saw {:?}, common order {:?}", late_items, order) });
        } else {
          let pos: Vec<usize> = pos.into_iter().map(|p| p.unwrap()).collect();
          if pos.windows(2).any(|w| w[1] <= w[0]) {
            violation = Some(Violation {
              rule: "c12.late-stale-current".into(),
              site: site.clone(),
              detail: format!("late subscriber saw {:?}: its first (\"current\") value is older than / equal to an item it then also received; common order {:?}", late_items, order),
            });
          } else {
            // after joining it must not miss items: contiguous suffix of the order from pos[1]
            {
              let tail: Vec<usize> = pos[1..].to_vec();
              let expect: Vec<usize> = (pos[0] + 1..order.len()).collect();
              if tail != expect {
                violation = Some(Violation { rule: "c12.late-gap".into(), site: site.clone(), detail: format!("late subscriber saw {:?}, common order {:?}: items after joining are not a contiguous suffix", late_items, order) });
              }
            }
          }
        }
      }
    }
    let mut resolved = case.clone();
    resolved.sched = SchedSpec::Explicit(rep.decisions.clone());
    drop(held);
    drop(b);
    drop(w);
    Ok(Outcome {
      violation,
      trace_hash: hash_mix(hash_mix(rep.trace_hash, hash_str(&format!("{:?}{:?}", order, late_items))), peek as u64),
      nontrivial: rep.multi_choice > 0,
      sim_ns: 0,
      steps: rep.steps,
      faults: vec![("preemption", rep.preemptions), ("lock_contention", rep.contentions)],
      reach: vec![("try_lock_contention_observed", (rep.contentions > 0) as u64)],
      resolved: Some(serde_json::to_value(resolved).unwrap()),
      sample: format!("producers={:?} late={} decisions={} => order={:?} late={:?} peek={}", case.producers, case.late_subscriber, rep.decisions.len(), order, late_items, peek),
    })
  }
}

pub fn check_def() -> PropertyCheck {
  PropertyCheck {
    id: "C12",
    scenarios: vec![Box::new(C12Des), Box::new(C12Threads)],
    runs: (250_000, 12_000_000),
    rule: "DES case = flavour x initial value x history of <=12 ops (next, next_by, clone, subscribe, unsubscribe-one, peek, complete, error) through up to 3 clones, compared with a (value, live list) model; thread case = 1-2 producer threads x 1-3 items (next of unique values, next_by(move |_| unique value), or - two producers - next_by(+1) where every increment must take effect) + optional late subscriber thread on BehaviorSubject<_, SubjectThreads> under a seeded lock-level schedule; non-trivial = >=1 subscriber and >=3 ops (DES) / a decision with >1 eligible thread (threads)",
    assumptions: vec!["sequentially consistent execution"],
  }
}
