//! C05 — flattening delivers every inner item once and honours the
//! concurrency limit: merge_all(n), concat_all, flatten, flat_map, concat_map
//! (local and _threads) over a hot outer stream of synchronous, hot and timed
//! inner observables.

use crate::framework::*;
use crate::probe::*;
use crate::rng::Rng;
use crate::world::*;
use rxrust::prelude::*;
use serde::{Deserialize, Serialize};
use serde_json::Value;
use std::panic::{catch_unwind, AssertUnwindSafe};
use std::sync::atomic::{AtomicUsize, Ordering::SeqCst};
use std::sync::{Arc, Mutex};
use std::time::Duration;

#[derive(Clone, Debug, Serialize, Deserialize, PartialEq)]
pub enum FOp {
  MergeAll(usize),
  ConcatAll,
  Flatten,
  FlatMap,
  ConcatMap,
}

#[derive(Clone, Debug, Serialize, Deserialize, PartialEq)]
pub enum IKind {
  /// emits `n` items and completes inside subscribe
  Sync(usize),
  /// driven later by the script
  Hot,
  /// interval(period).take(count) on the simulated executor
  Timed { period_ms: u32, count: usize },
}

#[derive(Clone, Debug, Serialize, Deserialize, PartialEq)]
pub enum Act {
  /// outer emits the next inner observable
  Outer,
  OuterComplete,
  OuterError,
  InnerNext(usize),
  InnerComplete(usize),
  InnerError(usize),
  Run(u16),
  AdvanceNext,
}

#[derive(Clone, Debug, Serialize, Deserialize)]
pub struct Case {
  op: FOp,
  threads_flavour: bool,
  inners: Vec<IKind>,
  acts: Vec<Act>,
  /// the outer stream is a plain producer that keeps calling its observer
  /// (like a `create` source) instead of a subject, which filters finished
  /// subscribers itself
  #[serde(default)]
  direct_outer: bool,
}

pub enum OuterEv {
  Next(usize),
  Complete,
  Error(E),
}

type SlotL = std::rc::Rc<std::cell::RefCell<Option<Box<dyn FnMut(OuterEv)>>>>;
type SlotS = Arc<Mutex<Option<Box<dyn FnMut(OuterEv) + Send>>>>;

fn forwarder<O: Observer<usize, E>>(o: O) -> impl FnMut(OuterEv) {
  let mut o = Some(o);
  move |ev| match ev {
    OuterEv::Next(i) => {
      if let Some(x) = o.as_mut() {
        x.next(i)
      }
    }
    OuterEv::Complete => {
      if let Some(x) = o.take() {
        x.complete()
      }
    }
    OuterEv::Error(e) => {
      if let Some(x) = o.take() {
        x.error(e)
      }
    }
  }
}

#[derive(Clone)]
struct DirectL(SlotL);
impl<O: Observer<usize, E> + 'static> Observable<usize, E, O> for DirectL {
  type Unsub = ();
  fn actual_subscribe(self, o: O) {
    *self.0.borrow_mut() = Some(Box::new(forwarder(o)));
  }
}
impl ObservableExt<usize, E> for DirectL {}

#[derive(Clone)]
struct DirectS(SlotS);
impl<O: Observer<usize, E> + Send + 'static> Observable<usize, E, O> for DirectS {
  type Unsub = ();
  fn actual_subscribe(self, o: O) {
    *self.0.lock().unwrap() = Some(Box::new(forwarder(o)));
  }
}
impl ObservableExt<usize, E> for DirectS {}

fn send_l(slot: &SlotL, ev: OuterEv) {
  // the producer is not re-entered by the harness: take the closure out while it runs
  let f = slot.borrow_mut().take();
  if let Some(mut f) = f {
    f(ev);
    let mut s = slot.borrow_mut();
    if s.is_none() {
      *s = Some(f);
    }
  }
}
fn send_s(slot: &SlotS, ev: OuterEv) {
  let f = slot.lock().unwrap().take();
  if let Some(mut f) = f {
    f(ev);
    let mut s = slot.lock().unwrap();
    if s.is_none() {
      *s = Some(f);
    }
  }
}

#[derive(Default)]
struct Gauge {
  live: AtomicUsize,
  max_live: AtomicUsize,
}

#[derive(Default)]
struct IStat {
  subscribed: AtomicUsize,
  terminated: AtomicUsize,
}

struct CountObs<O> {
  o: O,
  st: Arc<IStat>,
  g: Arc<Gauge>,
}
impl<O: Observer<Val, E>> Observer<Val, E> for CountObs<O> {
  fn next(&mut self, v: Val) {
    self.o.next(v)
  }
  fn error(self, e: E) {
    self.st.terminated.fetch_add(1, SeqCst);
    self.g.live.fetch_sub(1, SeqCst);
    self.o.error(e)
  }
  fn complete(self) {
    // the inner is no longer running once it has completed; what the
    // operator does in reaction (start a queued inner) comes after
    self.st.terminated.fetch_add(1, SeqCst);
    self.g.live.fetch_sub(1, SeqCst);
    self.o.complete()
  }
  fn is_finished(&self) -> bool {
    self.o.is_finished()
  }
}

fn on_sub(st: &IStat, g: &Gauge) {
  st.subscribed.fetch_add(1, SeqCst);
  let l = g.live.fetch_add(1, SeqCst) + 1;
  g.max_live.fetch_max(l, SeqCst);
}

fn inner_val(id: usize, k: usize) -> Val {
  Val::I((id as i64 + 1) * 100 + k as i64)
}

macro_rules! inner_type {
  ($name:ident, $subject:ty, $boxsub:ty, $sched:expr $(, $send:ident)?) => {
    #[derive(Clone)]
    struct $name {
      id: usize,
      kind: IKind,
      hot: $subject,
      st: Arc<IStat>,
      g: Arc<Gauge>,
    }
    impl<O> Observable<Val, E, O> for $name
    where
      O: Observer<Val, E> + 'static $(+ $send)?,
    {
      type Unsub = $boxsub;
      fn actual_subscribe(self, o: O) -> Self::Unsub {
        on_sub(&self.st, &self.g);
        let mut o = CountObs { o, st: self.st.clone(), g: self.g.clone() };
        match self.kind {
          IKind::Sync(n) => {
            for k in 0..n {
              o.next(inner_val(self.id, k));
            }
            o.complete();
            <$boxsub>::new(())
          }
          IKind::Hot => <$boxsub>::new(self.hot.actual_subscribe(o)),
          IKind::Timed { period_ms, count } => {
            let id = self.id;
            <$boxsub>::new(
              observable::interval(Duration::from_millis(period_ms as u64), $sched)
                .take(count)
                .map(move |k| inner_val(id, k))
                .on_error_map(|_| 0)
                .actual_subscribe(o),
            )
          }
        }
      }
    }
    impl ObservableExt<Val, E> for $name {}
  };
}

inner_type!(InnerL, Subject<'static, Val, E>, BoxSubscription<'static>, local_sched());
inner_type!(InnerS, SubjectThreads<Val, E>, BoxSubscriptionThreads, shared_sched(), Send);

pub struct C05;

impl Scenario for C05 {
  fn name(&self) -> &'static str {
    "c05.des"
  }
  fn weight(&self) -> usize {
    5
  }
  fn components(&self) -> (&'static [&'static str], &'static [&'static str]) {
    (
      &["ops/merge_all.rs (MergeAllOp, MergeAllOpThreads; flatten/flat_map/concat_map/concat_all)", "MultiSubscription(Threads)", "interval/RepeatTask for timed inners"],
      &["executor, timer, clock (sim)", "inner observables are harness sources (sync loop / subject / interval.take)"],
    )
  }
  fn generate(&self, rng: &mut Rng, tier: Tier) -> Value {
    let deep = deepen(rng, tier);
    let k = rng.range(1, if deep == 2 { 6 } else { 4 });
    let op = match rng.below(7) {
      0 | 1 | 2 => FOp::MergeAll(if rng.chance(1, 5) { usize::MAX } else { rng.range(1, k + 1) }),
      3 => FOp::ConcatAll,
      4 => FOp::Flatten,
      5 => FOp::FlatMap,
      _ => FOp::ConcatMap,
    };
    let inners: Vec<IKind> = (0..k)
      .map(|_| match rng.below(5) {
        0 | 1 => IKind::Sync(rng.below(4)),
        2 | 3 => IKind::Hot,
        _ => IKind::Timed { period_ms: *rng.pick(&[1, 2]), count: rng.range(1, 3) },
      })
      .collect();
    let len = rng.range(k, k * 5 + 3);
    let mut acts = Vec::new();
    for i in 0..len {
      let late = i * 3 >= len * 2;
      let oe = rng.chance(1, 8) as usize;
      let ie = rng.chance(1, 8) as usize;
      acts.push(match rng.weighted(&[5, if late { 2 } else { 0 }, oe, 6, 4, ie, 3, 2]) {
        0 => Act::Outer,
        1 => Act::OuterComplete,
        2 => Act::OuterError,
        3 => Act::InnerNext(rng.below(k)),
        4 => Act::InnerComplete(rng.below(k)),
        5 => Act::InnerError(rng.below(k)),
        6 => Act::Run(rng.below(4) as u16),
        _ => Act::AdvanceNext,
      });
    }
    serde_json::to_value(Case { op, threads_flavour: rng.chance(1, 2), inners, acts, direct_outer: rng.chance(1, 3) }).unwrap()
  }

  fn run(&self, case: &Value) -> Result<Outcome, String> {
    let case: Case = serde_json::from_value(case.clone()).map_err(|e| e.to_string())?;
    if case.inners.is_empty() || case.inners.len() > 6 {
      return Err("bad shape".into());
    }
    for i in &case.inners {
      match i {
        // a zero period never yields and take(0) never ends: the harness would spin
        IKind::Timed { period_ms, count } if *period_ms == 0 || *count == 0 || *count > 50 => return Err("bad timed inner".into()),
        IKind::Sync(n) if *n > 50 => return Err("bad sync inner".into()),
        _ => {}
      }
    }
    let w = World::new();
    let log = ProbeLog::new(false);
    let gauge = Arc::new(Gauge::default());
    let stats: Vec<Arc<IStat>> = case.inners.iter().map(|_| Arc::new(IStat::default())).collect();
    let k = case.inners.len();
    let limit = match case.op {
      FOp::MergeAll(n) => n.max(0),
      FOp::ConcatAll | FOp::ConcatMap => 1,
      _ => usize::MAX,
    };
    let site = format!(
      "{}{}",
      match case.op {
        FOp::MergeAll(_) => "merge_all",
        FOp::ConcatAll => "concat_all",
        FOp::Flatten => "flatten",
        FOp::FlatMap => "flat_map",
        FOp::ConcatMap => "concat_map",
      },
      if case.threads_flavour { "_threads" } else { "" }
    );

    // hot inner inputs
    let hots_l: Vec<Subject<'static, Val, E>> = (0..k).map(|_| Subject::default()).collect();
    let hots_s: Vec<SubjectThreads<Val, E>> = (0..k).map(|_| SubjectThreads::default()).collect();
    let mut outer_l = Subject::<'static, usize, E>::default();
    let mut outer_s = SubjectThreads::<usize, E>::default();
    let slot_l: SlotL = Default::default();
    let slot_s: SlotS = Default::default();
    let direct = case.direct_outer;

    let build = catch_unwind(AssertUnwindSafe(|| -> Box<dyn std::any::Any> {
      if !case.threads_flavour {
        let inners: Vec<InnerL> = (0..k)
          .map(|i| InnerL { id: i, kind: case.inners[i].clone(), hot: hots_l[i].clone(), st: stats[i].clone(), g: gauge.clone() })
          .collect();
        let f = move |i: usize| inners[i % inners.len()].clone();
        let o: rxrust::ops::box_it::BoxOp<'static, usize, E> = if direct { DirectL(slot_l.clone()).box_it() } else { outer_l.clone().box_it() };
        let p = Probe(log.clone());
        match case.op {
          FOp::MergeAll(n) => Box::new(o.map(f).merge_all(n).actual_subscribe(p)),
          FOp::ConcatAll => Box::new(o.map(f).concat_all().actual_subscribe(p)),
          FOp::Flatten => Box::new(o.map(f).flatten().actual_subscribe(p)),
          FOp::FlatMap => Box::new(o.flat_map(f).actual_subscribe(p)),
          FOp::ConcatMap => Box::new(o.concat_map(f).actual_subscribe(p)),
        }
      } else {
        let inners: Vec<InnerS> = (0..k)
          .map(|i| InnerS { id: i, kind: case.inners[i].clone(), hot: hots_s[i].clone(), st: stats[i].clone(), g: gauge.clone() })
          .collect();
        let f = move |i: usize| inners[i % inners.len()].clone();
        let o: rxrust::ops::box_it::BoxOpThreads<usize, E> = if direct { DirectS(slot_s.clone()).box_it() } else { outer_s.clone().box_it() };
        let p = Probe(log.clone());
        match case.op {
          FOp::MergeAll(n) => Box::new(o.map(f).merge_all_threads(n).actual_subscribe(p)),
          FOp::ConcatAll => Box::new(o.map(f).concat_all_threads().actual_subscribe(p)),
          FOp::Flatten => Box::new(o.map(f).flatten_threads().actual_subscribe(p)),
          FOp::FlatMap => Box::new(o.flat_map_threads(f).actual_subscribe(p)),
          FOp::ConcatMap => Box::new(o.concat_map_threads(f).actual_subscribe(p)),
        }
      }
    }));
    let _sub = build.map_err(|_| "panic while building".to_string())?;

    // model bookkeeping
    let mut emitted = 0usize; // inners handed to the operator so far
    let mut outer_done = false;
    let mut errored = false;
    let mut hot_counts = vec![0usize; k]; // items pushed into hot inner i
    let mut hot_done = vec![false; k];
    let mut completed_unsub = vec![false; k];
    let mut expected: Vec<Vec<Val>> = vec![vec![]; k]; // what each inner produced while subscribed
    let mut violation: Option<Violation> = None;
    let mut trace = String::new();
    let mut queued_started = 0u64;
    let mut sync_queued = 0u64;

    let mut acts = case.acts.clone();
    // quiescence: finish the outer stream and every hot inner, drain the executor
    acts.push(Act::OuterComplete);
    for i in 0..k {
      acts.push(Act::InnerComplete(i));
    }
    let n_script = case.acts.len();

    for (ai, a) in acts.iter().enumerate() {
      let before_subs: Vec<usize> = stats.iter().map(|s| s.subscribed.load(SeqCst)).collect();
      let r = catch_unwind(AssertUnwindSafe(|| match a {
        Act::Outer => {
          if emitted < k {
            match (direct, case.threads_flavour) {
              (true, true) => send_s(&slot_s, OuterEv::Next(emitted)),
              (true, false) => send_l(&slot_l, OuterEv::Next(emitted)),
              (false, true) => outer_s.next(emitted),
              (false, false) => outer_l.next(emitted),
            }
            true
          } else {
            false
          }
        }
        Act::OuterComplete => {
          match (direct, case.threads_flavour) {
            (true, true) => send_s(&slot_s, OuterEv::Complete),
            (true, false) => send_l(&slot_l, OuterEv::Complete),
            (false, true) => outer_s.clone().complete(),
            (false, false) => outer_l.clone().complete(),
          }
          true
        }
        Act::OuterError => {
          match (direct, case.threads_flavour) {
            (true, true) => send_s(&slot_s, OuterEv::Error(8)),
            (true, false) => send_l(&slot_l, OuterEv::Error(8)),
            (false, true) => outer_s.clone().error(8),
            (false, false) => outer_l.clone().error(8),
          }
          true
        }
        Act::InnerNext(i) => {
          let i = *i % k;
          if case.inners[i] == IKind::Hot && !hot_done[i] {
            let v = inner_val(i, hot_counts[i]);
            if case.threads_flavour {
              hots_s[i].clone().next(v)
            } else {
              hots_l[i].clone().next(v)
            }
            true
          } else {
            false
          }
        }
        Act::InnerComplete(i) => {
          let i = *i % k;
          if case.inners[i] == IKind::Hot && !hot_done[i] {
            if case.threads_flavour {
              hots_s[i].clone().complete()
            } else {
              hots_l[i].clone().complete()
            }
            true
          } else {
            false
          }
        }
        Act::InnerError(i) => {
          let i = *i % k;
          if case.inners[i] == IKind::Hot && !hot_done[i] {
            if case.threads_flavour {
              hots_s[i].clone().error(9)
            } else {
              hots_l[i].clone().error(9)
            }
            true
          } else {
            false
          }
        }
        Act::Run(c) => w.run_task(*c as usize),
        Act::AdvanceNext => w.advance_next(),
      }));
      let done = match r {
        Ok(d) => d,
        Err(p) => {
          let msg = panic_message(&*p);
          let rule = if msg.contains("SelfDeadlock") { "c05.self-deadlock" } else { "c05.panic" };
          violation = Some(Violation {
            rule: rule.into(),
            site: site.clone(),
            detail: format!("`{}` then {:?}: {} (inners {:?}, limit {})", trace.trim(), a, msg, case.inners, if limit == usize::MAX { "unbounded".to_string() } else { limit.to_string() }),
          });
          break;
        }
      };
      if ai >= n_script {
        // quiescence phase: drain timers and tasks after every step
        w.quiesce(500, 600_000 * MS);
      }
      if !done {
        continue;
      }
      // model update
      match a {
        Act::Outer => {
          if !outer_done && !errored {
            emitted += 1;
          }
          trace.push_str(&format!("outer→i{} ", emitted.saturating_sub(1)));
        }
        Act::OuterComplete => {
          outer_done = true;
          trace.push_str("outer-complete ");
        }
        Act::OuterError => {
          if !outer_done {
            errored = true;
          }
          outer_done = true;
          trace.push_str("outer-error ");
        }
        Act::InnerNext(i) => {
          let i = *i % k;
          // counts only if the inner was subscribed (and not yet finished) when it spoke
          if stats[i].subscribed.load(SeqCst) > stats[i].terminated.load(SeqCst) {
            expected[i].push(inner_val(i, hot_counts[i]));
          }
          hot_counts[i] += 1;
          trace.push_str(&format!("i{}:next ", i));
        }
        Act::InnerComplete(i) => {
          let i = *i % k;
          hot_done[i] = true;
          // a hot inner that completes before the operator has subscribed to it
          // (still waiting for a slot, or not handed over yet) is a completed
          // inner stream all the same
          if stats[i].subscribed.load(SeqCst) == 0 {
            completed_unsub[i] = true;
          }
          trace.push_str(&format!("i{}:complete ", i));
        }
        Act::InnerError(i) => {
          let i = *i % k;
          hot_done[i] = true;
          if stats[i].subscribed.load(SeqCst) > 0 && i < emitted {
            errored = true;
          }
          trace.push_str(&format!("i{}:error ", i));
        }
        Act::Run(_) => trace.push('r'),
        Act::AdvanceNext => trace.push_str("→ "),
      }
      // reach probes
      for i in 0..k {
        let now = stats[i].subscribed.load(SeqCst);
        if now > before_subs[i] && matches!(a, Act::InnerComplete(_) | Act::Run(_) | Act::AdvanceNext) {
          queued_started += 1;
          if matches!(case.inners[i], IKind::Sync(_)) {
            sync_queued += 1;
          }
        }
      }
      // ---- invariants
      let evs = log.events();
      if let Some(i) = grammar_violation(&evs) {
        violation = Some(Violation { rule: "c05.grammar".into(), site: site.clone(), detail: format!("`{}`: event #{} after terminal: [{}]", trace.trim(), i, fmt_trace(&evs)) });
        break;
      }
      let ml = gauge.max_live.load(SeqCst);
      if ml > limit {
        violation = Some(Violation { rule: "c05.concurrency-limit".into(), site: site.clone(), detail: format!("`{}`: {} inner observables subscribed at once, limit {}", trace.trim(), ml, limit) });
        break;
      }
      for i in 0..k {
        if stats[i].subscribed.load(SeqCst) > 1 {
          violation = Some(Violation { rule: "c05.inner-subscribed-twice".into(), site: site.clone(), detail: format!("`{}`: inner {} subscribed {} times", trace.trim(), i, stats[i].subscribed.load(SeqCst)) });
        }
      }
      if violation.is_some() {
        break;
      }
      if errored || evs.iter().any(|e| matches!(e, Ev::Err(_))) {
        if evs.iter().any(|e| matches!(e, Ev::Err(_))) && !errored {
          violation = Some(Violation { rule: "c05.unexpected-error".into(), site: site.clone(), detail: format!("`{}`: output failed although no input did: [{}]", trace.trim(), fmt_trace(&evs)) });
          break;
        }
        continue; // after an error only the grammar is judged
      }
      // sync/timed inners: expected = everything once they have terminated
      // delivered items: per inner in order, nothing invented, nothing twice
      let mut per_inner: Vec<Vec<Val>> = vec![vec![]; k];
      let mut bad = None;
      for e in &evs {
        if let Ev::Next(Val::I(x)) = e {
          let id = (*x / 100 - 1) as usize;
          if id >= k {
            bad = Some(format!("unknown value {}", x));
            break;
          }
          per_inner[id].push(Val::I(*x));
        }
      }
      if bad.is_none() {
        for i in 0..k {
          let full: Vec<Val> = match &case.inners[i] {
            IKind::Sync(n) => (0..*n).map(|j| inner_val(i, j)).collect(),
            IKind::Timed { count, .. } => (0..*count).map(|j| inner_val(i, j)).collect(),
            IKind::Hot => expected[i].clone(),
          };
          let term = stats[i].terminated.load(SeqCst) > 0;
          let okp = per_inner[i].len() <= full.len() && per_inner[i][..] == full[..per_inner[i].len()];
          if !okp {
            bad = Some(format!("inner {} delivered [{}], produced [{}]", i, per_inner[i].iter().map(fmt_val).collect::<Vec<_>>().join(" "), full.iter().map(fmt_val).collect::<Vec<_>>().join(" ")));
            break;
          }
          if (term || case.inners[i] == IKind::Hot) && per_inner[i] != full {
            bad = Some(format!("inner {} lost items: delivered [{}], produced [{}]", i, per_inner[i].iter().map(fmt_val).collect::<Vec<_>>().join(" "), full.iter().map(fmt_val).collect::<Vec<_>>().join(" ")));
            break;
          }
        }
      }
      if let Some(b) = bad {
        violation = Some(Violation { rule: "c05.items".into(), site: site.clone(), detail: format!("`{}`: {}", trace.trim(), b) });
        break;
      }
      if limit == 1 {
        // concat: blocks in outer order
        let ids: Vec<i64> = evs.iter().filter_map(|e| if let Ev::Next(Val::I(x)) = e { Some(*x / 100) } else { None }).collect();
        if ids.windows(2).any(|w| w[1] < w[0]) {
          violation = Some(Violation { rule: "c05.concat-order".into(), site: site.clone(), detail: format!("`{}`: inner blocks out of outer order: [{}]", trace.trim(), fmt_trace(&evs)) });
          break;
        }
      }
      // completion exactly when outer and all inners have completed
      let all_inner_done = (0..emitted).all(|i| stats[i].terminated.load(SeqCst) > 0 || completed_unsub[i]);
      let should = outer_done && all_inner_done;
      let has = evs.contains(&Ev::Complete);
      if should != has {
        // timed inners may still need the executor to run: only judge when idle
        let pending_async = w.ready_count() > 0 || w.live_timers() > 0;
        if has || !pending_async {
          let dead_on_arrival = !has && (0..emitted).any(|i| completed_unsub[i] && stats[i].terminated.load(SeqCst) == 0);
          violation = Some(Violation {
            rule: if has { "c05.completed-early" } else { "c05.not-completed" }.into(),
            site: if dead_on_arrival { format!("{} [a hot inner completed before it was subscribed]", site) } else { site.clone() },
            detail: format!(
              "`{}`: outer done={}, inners handed over={}, terminated={:?}, subscribed={:?}; output [{}]",
              trace.trim(),
              outer_done,
              emitted,
              stats.iter().map(|s| s.terminated.load(SeqCst)).collect::<Vec<_>>(),
              stats.iter().map(|s| s.subscribed.load(SeqCst)).collect::<Vec<_>>(),
              fmt_trace(&evs)
            ),
          });
          break;
        }
      }
    }
    let evs = log.events();
    let h = hash_mix(hash_str(&trace), hash_str(&fmt_trace(&evs)));
    let sample = format!("{} n={} inners={:?}: {} => [{}]", site, if limit == usize::MAX { "∞".to_string() } else { limit.to_string() }, case.inners, trace.trim(), fmt_trace(&evs));
    let sim = w.now();
    drop(_sub);
    drop(w);
    Ok(Outcome {
      violation,
      trace_hash: h,
      nontrivial: emitted >= 2,
      sim_ns: sim,
      steps: acts.len() as u64,
      faults: vec![("inner_or_outer_error", errored as u64)],
      reach: vec![("queued_inner_started_by_completion", queued_started), ("queued_sync_inner_started", sync_queued)],
      resolved: None,
      sample,
    })
  }
}

// ------------------------------------------------------------------- threads
//
// Unbounded merge_all_threads / flat_map_threads over hot inner subjects that
// are all subscribed when the pipeline is subscribed (cold outer); every inner
// is then driven by its own simulated thread.

#[derive(Clone, Debug, Serialize, Deserialize)]
pub struct TCase {
  /// 0 = from_iter(inners).merge_all_threads(MAX), 1 = merge_all_threads(#inners), 2 = flat_map_threads,
  /// 3 = concat_all_threads, 4 = merge_all_threads(#inners - 1): inners wait for a slot there, and
  /// what a hot inner emits before it is subscribed is legitimately lost (relaxed oracle);
  /// 5 = hot outer driven by its own thread + merge_all_threads(1), 6 = the same with limit 2: an
  /// inner's thread starts emitting once the inner has been subscribed (strict oracle)
  form: u8,
  /// one more thread unsubscribes the flattened stream (relaxed oracle)
  #[serde(default)]
  unsub: bool,
  /// per inner: number of items, then 0 = nothing, 1 = complete, 2 = error
  inners: Vec<(usize, u8)>,
  sched: crate::threadsim::SchedSpec,
}

pub struct C05Threads;

/// An inner observable that tells its driving thread when it has been
/// subscribed (forms 5 and 6: hot outer; an inner starts emitting only then, so
/// nothing is legitimately lost and the strict oracle applies).
#[derive(Clone)]
struct WaitInner {
  hot: SubjectThreads<Val, E>,
  subscribed: Arc<std::sync::atomic::AtomicBool>,
}
impl<O: Observer<Val, E> + Send + 'static> Observable<Val, E, O> for WaitInner {
  type Unsub = <SubjectThreads<Val, E> as Observable<Val, E, O>>::Unsub;
  fn actual_subscribe(self, o: O) -> Self::Unsub {
    let u = self.hot.actual_subscribe(o);
    self.subscribed.store(true, SeqCst);
    u
  }
}
impl ObservableExt<Val, E> for WaitInner {}

impl Scenario for C05Threads {
  fn name(&self) -> &'static str {
    "c05.threads"
  }
  fn weight(&self) -> usize {
    2
  }
  fn components(&self) -> (&'static [&'static str], &'static [&'static str]) {
    (&["merge_all_threads / flat_map_threads state cell (MutArc) with one emitting thread per inner SubjectThreads"], &["OS thread scheduling (baton)"])
  }
  fn generate(&self, rng: &mut Rng, _tier: Tier) -> Value {
    use crate::threadsim::{SchedSpec, Strategy};
    let m = rng.range(2, 3);
    let mut err_used = false;
    let inners = (0..m)
      .map(|_| {
        let t = match rng.below(6) {
          0 => 0,
          1 if !err_used || rng.chance(1, 3) => {
            err_used = true;
            2
          }
          _ => 1,
        };
        (rng.below(4), t)
      })
      .collect();
    let strategy = match rng.below(3) {
      0 => Strategy::Random,
      1 => Strategy::Seq { den: 3 },
      _ => Strategy::Pct { d: rng.range(1, 3) as u8, k: 40 },
    };
    // one case in five: hot outer on its own thread, every inner completes
    if rng.chance(1, 5) {
      let inners = (0..rng.range(2, 3)).map(|_| (rng.below(3), 1u8)).collect();
      return serde_json::to_value(TCase { form: 5 + rng.below(2) as u8, unsub: false, inners, sched: SchedSpec::Seeded { seed: rng.next_u64(), strategy } }).unwrap();
    }
    // one case in four is the teardown race: three short inners that all complete, a
    // concurrency limit below their number and an unsubscribing thread
    if rng.chance(1, 4) {
      let inners = (0..3).map(|_| (rng.below(2), 1u8)).collect();
      return serde_json::to_value(TCase { form: 3 + rng.below(2) as u8, unsub: true, inners, sched: SchedSpec::Seeded { seed: rng.next_u64(), strategy } }).unwrap();
    }
    serde_json::to_value(TCase { form: rng.below(5) as u8, unsub: rng.chance(1, 4), inners, sched: SchedSpec::Seeded { seed: rng.next_u64(), strategy } }).unwrap()
  }
  fn run(&self, case: &Value) -> Result<Outcome, String> {
    use crate::threadsim::*;
    let case: TCase = serde_json::from_value(case.clone()).map_err(|e| e.to_string())?;
    if case.inners.is_empty() || case.inners.len() > 4 || case.form > 6 || (case.form >= 5 && (case.unsub || case.inners.iter().any(|(_, t)| *t != 1))) || case.inners.iter().any(|(n, t)| *n > 6 || *t > 2) {
      return Err("bad shape".into());
    }
    let shr = Shared::new();
    let w = World::with_shared(shr.clone());
    let log = ProbeLog::new(true);
    let p = Probe(log.clone());
    let m = case.inners.len();
    let subjects: Vec<SubjectThreads<Val, E>> = (0..m).map(|_| SubjectThreads::default()).collect();
    let hot_outer = case.form >= 5;
    let flags: Vec<Arc<std::sync::atomic::AtomicBool>> = (0..m).map(|_| Default::default()).collect();
    let outer = SubjectThreads::<WaitInner, E>::default();
    let sub: BoxSubscriptionThreads = match case.form {
      5 => BoxSubscriptionThreads::new(outer.clone().merge_all_threads(1).actual_subscribe(p)),
      6 => BoxSubscriptionThreads::new(outer.clone().merge_all_threads(2).actual_subscribe(p)),
      0 => BoxSubscriptionThreads::new(observable::from_iter(subjects.clone()).on_error_map(|_| 0).merge_all_threads(usize::MAX).actual_subscribe(p)),
      1 => BoxSubscriptionThreads::new(observable::from_iter(subjects.clone()).on_error_map(|_| 0).merge_all_threads(m).actual_subscribe(p)),
      2 => {
        let ss = subjects.clone();
        BoxSubscriptionThreads::new(observable::from_iter(0..m).on_error_map(|_| 0).flat_map_threads(move |i| ss[i].clone()).actual_subscribe(p))
      }
      3 => BoxSubscriptionThreads::new(observable::from_iter(subjects.clone()).on_error_map(|_| 0).concat_all_threads().actual_subscribe(p)),
      _ => BoxSubscriptionThreads::new(observable::from_iter(subjects.clone()).on_error_map(|_| 0).merge_all_threads((m - 1).max(1)).actual_subscribe(p)),
    };
    let relaxed = (case.form >= 3 && case.form <= 4) || case.unsub;
    let sub = Arc::new(Mutex::new(Some(sub)));
    let unsub_ret: Arc<Mutex<Option<u64>>> = Default::default();
    // (inner, item, invoke, ret) / (inner, terminal kind, invoke, ret)
    let oplog: Arc<Mutex<Vec<(usize, i64, u64, u64)>>> = Default::default();
    let ts = TSim::new(shr.clone(), &case.sched, m + case.unsub as usize + hot_outer as usize, 0, 20_000);
    let never_started: Arc<Mutex<Vec<usize>>> = Default::default();
    let mut bodies: Vec<Body> = Vec::new();
    for (k, (n, term)) in case.inners.iter().enumerate() {
      let mut s = subjects[k].clone();
      let (n, term) = (*n, *term);
      let oplog = oplog.clone();
      let flag = flags[k].clone();
      let never_started = never_started.clone();
      bodies.push(Box::new(move || {
        let sh = shared();
        if hot_outer {
          // wait (in simulated time) until the flattening operator has subscribed this inner
          let mut waited = 0;
          while !flag.load(SeqCst) {
            waited += 1;
            if waited > 40 {
              never_started.lock().unwrap().push(k);
              return;
            }
            harness_sleep_ms(1);
          }
        }
        for i in 0..n {
          let item = (k as i64 + 1) * 100 + i as i64;
          let invoke = sh.stamp();
          s.next(Val::I(item));
          let ret = sh.stamp();
          oplog.lock().unwrap().push((k, item, invoke, ret));
          harness_yield("between-items");
        }
        let invoke = sh.stamp();
        match term {
          1 => s.complete(),
          2 => s.error(k as E + 1),
          _ => return,
        }
        let ret = sh.stamp();
        oplog.lock().unwrap().push((k, -(term as i64), invoke, ret));
      }));
    }
    if hot_outer {
      let mut outer = outer.clone();
      let inners: Vec<WaitInner> = (0..m).map(|k| WaitInner { hot: subjects[k].clone(), subscribed: flags[k].clone() }).collect();
      bodies.push(Box::new(move || {
        for i in inners {
          outer.next(i);
          harness_yield("between-inners");
        }
        outer.complete();
      }));
    }
    if case.unsub {
      let sub = sub.clone();
      let unsub_ret = unsub_ret.clone();
      bodies.push(Box::new(move || {
        harness_yield("before-unsubscribe");
        let u = sub.lock().unwrap().take();
        if let Some(u) = u {
          u.unsubscribe();
          *unsub_ret.lock().unwrap() = Some(shared().stamp());
        }
      }));
    }
    let rep = ts.run(bodies);
    let site = ["merge_all_threads(MAX)", "merge_all_threads(n)", "flat_map_threads", "concat_all_threads", "merge_all_threads(n-1)", "merge_all_threads(1), hot outer", "merge_all_threads(2), hot outer"][case.form as usize].to_string();
    let recs = log.records();
    let got: Vec<Ev> = recs.iter().map(|r| r.ev.clone()).collect();
    let ops = oplog.lock().unwrap().clone();
    let mut violation: Option<Violation> = None;
    let mut bad = |rule: &str, detail: String| {
      if violation.is_none() {
        violation = Some(Violation { rule: rule.into(), site: site.clone(), detail });
      }
    };
    if let Some(d) = &rep.deadlock {
      bad("c05.deadlock", d.clone());
    } else if rep.budget_overrun {
      bad("c05.livelock", "step budget exhausted".into());
    } else if let Some((t, msg)) = rep.panics.first() {
      bad("c05.panic", format!("thread {} panicked: {}", t, msg));
    } else if let Some(k) = never_started.lock().unwrap().first() {
      bad("c05.inner-never-started", format!("inner {} was handed to the operator, every other thread went on for 40 simulated ms, and it has not been subscribed (inners {:?}; delivered [{}])", k, case.inners, fmt_trace(&got)));
    } else if log.overlap.load(SeqCst) {
      bad("c05.overlap", "the subscriber was entered on two threads at once".into());
    } else if let Some(i) = grammar_violation(&got) {
      bad("c05.grammar", format!("event #{} after terminal: [{}]", i, fmt_trace(&got)));
    } else {
      let items: Vec<i64> = got.iter().filter_map(|e| if let Ev::Next(Val::I(i)) = e { Some(*i) } else { None }).collect();
      let first_err = ops.iter().filter(|o| o.1 == -2).map(|o| o.2).min();
      for (i, x) in items.iter().enumerate() {
        if items[..i].contains(x) {
          bad("c05.items", format!("item {} delivered twice: [{}]", x, fmt_trace(&got)));
        }
        if !ops.iter().any(|o| o.1 == *x) {
          bad("c05.items", format!("item {} was never emitted: [{}]", x, fmt_trace(&got)));
        }
      }
      for k in 0..m {
        let mine: Vec<i64> = items.iter().copied().filter(|x| x / 100 == k as i64 + 1).collect();
        if mine.windows(2).any(|w| w[0] > w[1]) {
          bad("c05.items", format!("inner {}'s items out of order: {:?}", k, mine));
        }
      }
      if let Some(u) = *unsub_ret.lock().unwrap() {
        if let Some(r) = recs.iter().find(|r| r.seq > u) {
          bad("c05.after-unsubscribe", format!("{} was delivered after unsubscribe() had returned", fmt_ev(&r.ev)));
        }
      }
      // exactly once: every item whose next() returned before any inner failed
      for o in ops.iter().filter(|o| o.1 > 0 && !relaxed) {
        if first_err.map_or(true, |e| o.3 < e) && !items.contains(&o.1) {
          bad("c05.items", format!("item {} of inner {} (next returned at stamp {}) was not delivered: [{}]", o.1, o.0, o.3, fmt_trace(&got)));
        }
      }
      let all_completed = case.inners.iter().all(|(_, t)| *t == 1);
      let n_err = case.inners.iter().filter(|(_, t)| *t == 2).count();
      match got.last() {
        Some(Ev::Complete) if !all_completed => bad("c05.completed-early", format!("completed although not every inner completed: inners {:?} => [{}]", case.inners, fmt_trace(&got))),
        Some(Ev::Err(_)) if n_err == 0 => bad("c05.unexpected-error", format!("[{}]", fmt_trace(&got))),
        _ => {}
      }
      if relaxed {
        // (completion and error delivery depend on what was subscribed when)
      } else if all_completed && got.last() != Some(&Ev::Complete) {
        bad("c05.not-completed", format!("the outer and all {} inners completed and every thread returned; the subscriber saw [{}]", m, fmt_trace(&got)));
      }
      if !relaxed && n_err > 0 && !matches!(got.last(), Some(Ev::Err(_))) {
        bad("c05.unexpected-error", format!("an inner failed and every thread returned, yet no error was delivered: [{}]", fmt_trace(&got)));
      }
    }
    let mut resolved = case.clone();
    resolved.sched = SchedSpec::Explicit(rep.decisions.clone());
    let h = hash_mix(rep.trace_hash, hash_str(&fmt_trace(&got)));
    drop(sub);
    drop(subjects);
    drop(w);
    Ok(Outcome {
      violation,
      trace_hash: h,
      nontrivial: rep.multi_choice > 0,
      sim_ns: 0,
      steps: rep.steps,
      faults: vec![("preemption_at_lock_point", rep.preemptions), ("lock_contention", rep.contentions)],
      reach: vec![("try_lock_contention_observed", (rep.contentions > 0) as u64)],
      resolved: Some(serde_json::to_value(resolved).unwrap()),
      sample: format!("{} inners={:?} decisions={} => [{}]", site, case.inners, rep.decisions.len(), fmt_trace(&got)),
    })
  }
}

pub fn check_def() -> PropertyCheck {
  PropertyCheck {
    id: "C05",
    scenarios: vec![Box::new(C05), Box::new(C05Threads)],
    runs: (300_000, 30_000_000),
    rule: "case = operator (merge_all(n in 1..k+1 | unbounded), concat_all, flatten, flat_map, concat_map; local and _threads) x 1-4 inner observables (synchronous with 0-3 items / hot / interval.take on the simulated executor) x script of outer next/complete/error, inner next/complete/error, run ready task #k, jump to next deadline, followed by a fault-free quiescence phase; non-trivial = >=2 inners handed to the operator; distinct = distinct (case, behaviour) hashes; thread case = unbounded merge_all_threads / flat_map_threads over 2-3 hot inner subjects, each driven by its own simulated thread (<=3 items then complete / error / nothing) under a seeded lock-level schedule: exactly once, per-inner order, completion iff every inner completed, one error",
    assumptions: vec!["items pushed into a hot inner while it is queued (not yet subscribed) are legitimately lost and not expected"],
  }
}
