//! C06 — subjects deliver each item once, in order, to exactly the current
//! subscribers. DES part: generated operation histories on all five subject
//! types against an executable reference model. Thread part (SubjectThreads):
//! 2-3 threads, lock-level interleavings, real-time (stamp) oracle.

use crate::framework::*;
use crate::probe::*;
use crate::rng::Rng;
use crate::threadsim::*;
use crate::world::*;
use rxrust::prelude::*;
use serde::{Deserialize, Serialize};
use serde_json::Value;
use std::sync::{Arc, Mutex};

pub struct AssertSend<T>(pub T);
// Only ever touched by the single thread of a DES run.
unsafe impl<T> Send for AssertSend<T> {}

type Hook = Arc<Mutex<Option<AssertSend<Box<dyn FnMut()>>>>>;

/// Subscriber probe for all subject flavours. For the `&mut` variants it
/// mutates the referent (adds 1 per visit) and records the identity part.
#[derive(Clone)]
pub struct SjProbe {
  pub log: Arc<ProbeLog>,
  pub hook: Hook,
}

impl SjProbe {
  fn new() -> Self {
    SjProbe { log: ProbeLog::new(false), hook: Arc::new(Mutex::new(None)) }
  }
  fn fire_hook(&self) {
    let h = self.hook.lock().unwrap().take();
    if let Some(mut h) = h {
      (h.0)();
    }
  }
}

const VIS: i64 = 1000;

impl Observer<i64, E> for SjProbe {
  fn next(&mut self, v: i64) {
    Observer::<i64, E>::next(&mut Probe(self.log.clone()), v);
    self.fire_hook();
  }
  fn error(self, e: E) {
    Observer::<i64, E>::error(Probe(self.log.clone()), e)
  }
  fn complete(self) {
    Observer::<i64, E>::complete(Probe(self.log.clone()))
  }
  fn is_finished(&self) -> bool {
    false
  }
}
impl<'r> Observer<&'r mut i64, E> for SjProbe {
  fn next(&mut self, v: &'r mut i64) {
    *v += 1;
    Observer::<i64, E>::next(&mut Probe(self.log.clone()), *v / VIS);
    self.fire_hook();
  }
  fn error(self, e: E) {
    Observer::<i64, E>::error(Probe(self.log.clone()), e)
  }
  fn complete(self) {
    Observer::<i64, E>::complete(Probe(self.log.clone()))
  }
  fn is_finished(&self) -> bool {
    false
  }
}
impl<'r> Observer<i64, &'r mut E> for SjProbe {
  fn next(&mut self, v: i64) {
    Observer::<i64, E>::next(&mut Probe(self.log.clone()), v);
    self.fire_hook();
  }
  fn error(self, e: &'r mut E) {
    *e += 1;
    Observer::<i64, E>::error(Probe(self.log.clone()), *e / VIS as i32)
  }
  fn complete(self) {
    Observer::<i64, E>::complete(Probe(self.log.clone()))
  }
  fn is_finished(&self) -> bool {
    false
  }
}
impl<'i, 'e> Observer<&'i mut i64, &'e mut E> for SjProbe {
  fn next(&mut self, v: &'i mut i64) {
    *v += 1;
    Observer::<i64, E>::next(&mut Probe(self.log.clone()), *v / VIS);
    self.fire_hook();
  }
  fn error(self, e: &'e mut E) {
    *e += 1;
    Observer::<i64, E>::error(Probe(self.log.clone()), *e / VIS as i32)
  }
  fn complete(self) {
    Observer::<i64, E>::complete(Probe(self.log.clone()))
  }
  fn is_finished(&self) -> bool {
    false
  }
}

#[derive(Clone, Debug, Serialize, Deserialize, PartialEq)]
pub enum Flavour {
  Local,
  Threads,
  MutItem,
  MutErr,
  MutItemErr,
}

#[derive(Clone, Debug, Serialize, Deserialize)]
pub enum Op {
  Subscribe,
  UnsubOne(usize),
  Next,
  Error,
  Complete,
  CloneHandle,
  Retain,
  UnsubSubject,
  /// arm subscriber k: at its next item it subscribes a fresh subscriber
  ArmInside(usize),
}

#[derive(Clone, Debug, Serialize, Deserialize)]
pub struct Step {
  op: Op,
  /// which cloned handle performs the operation (modulo)
  via: usize,
}

#[derive(Clone, Debug, Serialize, Deserialize)]
pub struct Case {
  flavour: Flavour,
  steps: Vec<Step>,
}

/// what a driver must offer; implemented per subject type by the macro below
trait Driver {
  fn subscribe(&mut self, via: usize, p: SjProbe) -> Box<dyn SubHandle>;
  fn next(&mut self, via: usize, id: i64) -> Option<i64>;
  fn error(&mut self, via: usize, e: E) -> Option<i64>;
  fn complete(&mut self, via: usize);
  fn clone_handle(&mut self, via: usize);
  fn retain(&mut self, via: usize);
  fn unsub_subject(&mut self, via: usize);
  fn status(&self, via: usize) -> (bool, bool, bool, usize);
  fn handles(&self) -> usize;
  /// a closure that subscribes `p` to a clone of the subject
  fn subscriber_fn(&self, via: usize, p: SjProbe, store: HandleStore) -> Box<dyn FnMut()>;
}

pub trait SubHandle {
  fn unsub(self: Box<Self>);
  fn closed(&self) -> bool;
}
impl<T: Subscription> SubHandle for T {
  fn unsub(self: Box<Self>) {
    (*self).unsubscribe()
  }
  fn closed(&self) -> bool {
    self.is_closed()
  }
}

type HandleStore = Arc<Mutex<Vec<(usize, AssertSend<Box<dyn SubHandle>>)>>>;

macro_rules! driver {
  ($name:ident, $ty:ty, $next:expr, $error:expr) => {
    struct $name {
      hs: Vec<Option<$ty>>,
    }
    impl $name {
      fn new() -> Self {
        $name { hs: vec![Some(<$ty>::default())] }
      }
      fn pick(&self, via: usize) -> Option<usize> {
        let live: Vec<usize> = (0..self.hs.len()).filter(|i| self.hs[*i].is_some()).collect();
        if live.is_empty() {
          None
        } else {
          Some(live[via % live.len()])
        }
      }
    }
    impl Driver for $name {
      fn subscribe(&mut self, via: usize, p: SjProbe) -> Box<dyn SubHandle> {
        let i = self.pick(via).unwrap();
        Box::new(self.hs[i].as_ref().unwrap().clone().actual_subscribe(p))
      }
      fn next(&mut self, via: usize, id: i64) -> Option<i64> {
        let i = self.pick(via).unwrap();
        let f: fn(&mut $ty, i64) -> Option<i64> = $next;
        f(self.hs[i].as_mut().unwrap(), id)
      }
      fn error(&mut self, via: usize, e: E) -> Option<i64> {
        let i = self.pick(via).unwrap();
        let f: fn($ty, E) -> Option<i64> = $error;
        f(self.hs[i].take().unwrap(), e)
      }
      fn complete(&mut self, via: usize) {
        let i = self.pick(via).unwrap();
        self.hs[i].take().unwrap().complete()
      }
      fn clone_handle(&mut self, via: usize) {
        let i = self.pick(via).unwrap();
        let c = self.hs[i].as_ref().unwrap().clone();
        self.hs.push(Some(c));
      }
      fn retain(&mut self, via: usize) {
        let i = self.pick(via).unwrap();
        self.hs[i].as_mut().unwrap().retain()
      }
      fn unsub_subject(&mut self, via: usize) {
        let i = self.pick(via).unwrap();
        self.hs[i].take().unwrap().unsubscribe()
      }
      fn status(&self, via: usize) -> (bool, bool, bool, usize) {
        let i = self.pick(via).unwrap();
        let s = self.hs[i].as_ref().unwrap();
        (Observer::<_, _>::is_finished(s), s.is_closed(), s.is_empty(), s.len())
      }
      fn handles(&self) -> usize {
        self.hs.iter().filter(|h| h.is_some()).count()
      }
      fn subscriber_fn(&self, via: usize, p: SjProbe, store: HandleStore) -> Box<dyn FnMut()> {
        let i = self.pick(via).unwrap();
        let s = self.hs[i].as_ref().unwrap().clone();
        let mut slot = Some((s, p));
        Box::new(move || {
          if let Some((s, p)) = slot.take() {
            let u = s.actual_subscribe(p);
            store.lock().unwrap().push((usize::MAX, AssertSend(Box::new(u))));
          }
        })
      }
    }
  };
}

driver!(DLocal, Subject<'static, i64, E>, |s, id| {
  s.next(id);
  None
}, |s, e| {
  s.error(e);
  None
});
driver!(DThreads, SubjectThreads<i64, E>, |s, id| {
  s.next(id);
  None
}, |s, e| {
  s.error(e);
  None
});
driver!(DMutItem, MutRefItemSubject<'static, i64, E>, |s, id| {
  let mut v = id * VIS;
  s.next(&mut v);
  Some(v % VIS)
}, |s, e| {
  s.error(e);
  None
});
driver!(DMutErr, MutRefErrSubject<'static, i64, E>, |s, id| {
  s.next(id);
  None
}, |s, e| {
  let mut x = e * VIS as i32;
  s.error(&mut x);
  Some((x % VIS as i32) as i64)
});
driver!(DMutItemErr, MutRefItemErrSubject<'static, i64, E>, |s, id| {
  let mut v = id * VIS;
  s.next(&mut v);
  Some(v % VIS)
}, |s, e| {
  let mut x = e * VIS as i32;
  s.error(&mut x);
  Some((x % VIS as i32) as i64)
});

pub struct C06Des;

impl Scenario for C06Des {
  fn name(&self) -> &'static str {
    "c06.des"
  }
  fn weight(&self) -> usize {
    3
  }
  fn components(&self) -> (&'static [&'static str], &'static [&'static str]) {
    (&["subject.rs (all five subject types)", "subscriber.rs", "rc.rs"], &[])
  }
  fn generate(&self, rng: &mut Rng, tier: Tier) -> Value {
    let flavour = match rng.below(8) {
      0..=2 => Flavour::Local,
      3 | 4 => Flavour::Threads,
      5 => Flavour::MutItem,
      6 => Flavour::MutErr,
      _ => Flavour::MutItemErr,
    };
    let deep = deepen(rng, tier);
    let len = rng.range(3, 14 * deep);
    let mut steps = Vec::new();
    let mut subs = 0usize;
    for i in 0..len {
      let late = i + 3 >= len;
      let op = match rng.weighted(&[5, 3, 8, if late { 2 } else { 0 }, if late { 2 } else { 1 }, 2, 1, if late { 1 } else { 0 }, 2]) {
        0 => {
          subs += 1;
          Op::Subscribe
        }
        1 => Op::UnsubOne(rng.below(subs.max(1))),
        2 => Op::Next,
        3 => Op::Error,
        4 => Op::Complete,
        5 => Op::CloneHandle,
        6 => Op::Retain,
        7 => Op::UnsubSubject,
        _ => {
          subs += 1;
          Op::ArmInside(rng.below(subs.max(1)))
        }
      };
      steps.push(Step { op, via: rng.below(3) });
    }
    serde_json::to_value(Case { flavour, steps }).unwrap()
  }

  fn run(&self, case: &Value) -> Result<Outcome, String> {
    let case: Case = serde_json::from_value(case.clone()).map_err(|e| e.to_string())?;
    let w = World::new();
    let mut d: Box<dyn Driver> = match case.flavour {
      Flavour::Local => Box::new(DLocal::new()),
      Flavour::Threads => Box::new(DThreads::new()),
      Flavour::MutItem => Box::new(DMutItem::new()),
      Flavour::MutErr => Box::new(DMutErr::new()),
      Flavour::MutItemErr => Box::new(DMutItemErr::new()),
    };
    let r = run_history(&case, d.as_mut());
    drop(d);
    let sim = w.now();
    drop(w);
    let mut o = r?;
    o.sim_ns = sim;
    Ok(o)
  }
}

struct Model {
  live: Vec<usize>,
  finished: bool,
  logs: Vec<Vec<Ev>>,
}

fn run_history(case: &Case, d: &mut dyn Driver) -> Result<Outcome, String> {
  let mut probes: Vec<SjProbe> = Vec::new();
  let handles: HandleStore = Arc::new(Mutex::new(Vec::new()));
  let mut m = Model { live: vec![], finished: false, logs: vec![] };
  // subscribers armed to join from inside a callback: (trigger k, new id)
  let mut armed: Vec<(usize, usize)> = Vec::new();
  let mut next_id = 0i64;
  let mut violation = None;
  let mut trace = String::new();
  let mut inside_joins = 0u64;
  let mut post_terminal_ops = 0u64;
  let mut via_clone_terminals = 0u64;
  let flav = format!("{:?}", case.flavour);

  for st in &case.steps {
    if d.handles() == 0 {
      break;
    }
    match &st.op {
      Op::Subscribe => {
        let k = probes.len();
        let p = SjProbe::new();
        probes.push(p.clone());
        m.logs.push(vec![]);
        let h = d.subscribe(st.via, p);
        handles.lock().unwrap().push((k, AssertSend(h)));
        if !m.finished {
          m.live.push(k);
        } else {
          post_terminal_ops += 1;
        }
        trace.push_str(&format!("sub{} ", k));
      }
      Op::UnsubOne(k) => {
        let pos = handles.lock().unwrap().iter().position(|(id, _)| id == k);
        if let Some(pos) = pos {
          let (_, h) = handles.lock().unwrap().remove(pos);
          h.0.unsub();
          m.live.retain(|x| x != k);
          trace.push_str(&format!("unsub{} ", k));
        }
      }
      Op::Next => {
        next_id += 1;
        let id = next_id;
        if m.finished {
          post_terminal_ops += 1;
        }
        let snapshot = m.live.clone();
        let visits = d.next(st.via, id);
        if !m.finished {
          for k in &snapshot {
            m.logs[*k].push(Ev::Next(Val::I(id)));
          }
          // joins from inside callbacks triggered by this emission
          let mut fired = Vec::new();
          armed.retain(|(trig, newk)| {
            if snapshot.contains(trig) {
              fired.push(*newk);
              false
            } else {
              true
            }
          });
          for nk in fired {
            m.live.push(nk);
            inside_joins += 1;
          }
          if let Some(v) = visits {
            if v != snapshot.len() as i64 && violation.is_none() {
              violation = Some(Violation {
                rule: "c06.visits".into(),
                site: flav.clone(),
                detail: format!("item {} visited {} subscribers, model has {} live", id, v, snapshot.len()),
              });
            }
          }
        }
        trace.push_str(&format!("n{} ", id));
      }
      Op::Error | Op::Complete => {
        if d.handles() > 1 && st.via % d.handles() != 0 {
          via_clone_terminals += 1;
        }
        if m.finished {
          post_terminal_ops += 1;
        }
        let is_err = matches!(st.op, Op::Error);
        let visits = if is_err { d.error(st.via, 7) } else {
          d.complete(st.via);
          None
        };
        if !m.finished {
          for k in &m.live {
            m.logs[*k].push(if is_err { Ev::Err(7) } else { Ev::Complete });
          }
          if let Some(v) = visits {
            if v != m.live.len() as i64 && violation.is_none() {
              violation = Some(Violation {
                rule: "c06.visits".into(),
                site: flav.clone(),
                detail: format!("error visited {} subscribers, model has {} live", v, m.live.len()),
              });
            }
          }
          m.live.clear();
          m.finished = true;
          armed.clear();
        }
        trace.push_str(if is_err { "err " } else { "complete " });
      }
      Op::CloneHandle => d.clone_handle(st.via),
      Op::Retain => {
        d.retain(st.via);
        trace.push_str("retain ");
      }
      Op::UnsubSubject => {
        d.unsub_subject(st.via);
        m.live.clear();
        m.finished = true;
        armed.clear();
        trace.push_str("unsub-subject ");
      }
      Op::ArmInside(k) => {
        if let Some(trigger) = probes.get(*k).cloned() {
          if armed.iter().any(|(t, _)| t == k) {
            continue;
          }
          let nk = probes.len();
          let p = SjProbe::new();
          probes.push(p.clone());
          m.logs.push(vec![]);
          let f = d.subscriber_fn(st.via, p, handles.clone());
          *trigger.hook.lock().unwrap() = Some(AssertSend(f));
          armed.push((*k, nk));
          trace.push_str(&format!("arm{}→{} ", k, nk));
        }
      }
    }
    // compare every probe with the model
    if violation.is_none() {
      for (k, p) in probes.iter().enumerate() {
        let got = p.log.events();
        if got != m.logs[k] {
          violation = Some(Violation {
            rule: "c06.model-mismatch".into(),
            site: flav.clone(),
            detail: format!(
              "after `{}` subscriber {} saw [{}], reference model says [{}]",
              trace.trim(),
              k,
              fmt_trace(&got),
              fmt_trace(&m.logs[k])
            ),
          });
          break;
        }
      }
    }
    if violation.is_none() && m.finished && d.handles() > 0 {
      let (fin, closed, empty, len) = d.status(st.via);
      if !(fin && closed && empty && len == 0) {
        violation = Some(Violation {
          rule: "c06.status-after-terminal".into(),
          site: flav.clone(),
          detail: format!(
            "after `{}`: is_finished={} is_closed={} is_empty={} len={}",
            trace.trim(),
            fin,
            closed,
            empty,
            len
          ),
        });
      }
    }
    if violation.is_some() {
      break;
    }
  }
  let mut h = hash_str(&trace);
  for p in &probes {
    for e in p.log.events() {
      h = hash_mix(h, hash_str(&fmt_ev(&e)));
    }
    h = hash_mix(h, 77);
  }
  handles.lock().unwrap().clear();
  for p in &probes {
    p.hook.lock().unwrap().take();
  }
  Ok(Outcome {
    violation,
    trace_hash: h,
    nontrivial: probes.len() >= 2 || inside_joins > 0 || post_terminal_ops > 0,
    sim_ns: 0,
    steps: case.steps.len() as u64,
    faults: vec![
      ("op_after_terminal", post_terminal_ops),
      ("terminal_via_clone", via_clone_terminals),
      ("subscribe_from_inside_callback", inside_joins),
    ],
    reach: vec![],
    resolved: None,
    sample: format!(
      "{:?}: {} => {}",
      case.flavour,
      trace.trim(),
      probes.iter().enumerate().map(|(k, p)| format!("s{}=[{}]", k, fmt_trace(&p.log.events()))).collect::<Vec<_>>().join(" ")
    ),
  })
}

// ---------------------------------------------------------------- thread part

#[derive(Clone, Debug, Serialize, Deserialize)]
pub enum TOp {
  Next,
  Subscribe,
  /// unsubscribe the subscription this thread created (if any), else no-op
  UnsubOwn,
  /// unsubscribe a pre-subscribed stable? no: a *leaver* set up before the run
  UnsubPre(usize),
  Complete,
  Error,
  /// read len() / is_empty() (no expectation on the racing value; must return)
  Size,
  /// `Subscription::unsubscribe` on this thread's handle of the subject itself
  UnsubSubject,
}

#[derive(Clone, Debug, Serialize, Deserialize)]
pub struct TCase {
  /// subscribers present before the threads start and never leaving
  stable: usize,
  /// subscribers present before the threads start that some thread may drop
  leavers: usize,
  threads: Vec<Vec<TOp>>,
  sched: SchedSpec,
}

pub struct C06Threads;

/// The same thread scenario with the subscribers attached to
/// `source.share_threads()` instead of the subject itself (C11: every
/// subscriber present at an emission receives it, whoever joins or leaves on
/// other threads meanwhile).
pub struct C11Threads;

type TH = Box<dyn SubHandle + Send>;

#[derive(Clone, Debug)]
struct OpRec {
  tid: usize,
  op: String,
  item: i64,
  sub: usize,
  invoke: u64,
  ret: u64,
}

impl Scenario for C06Threads {
  fn name(&self) -> &'static str {
    "c06.threads"
  }
  fn weight(&self) -> usize {
    1
  }
  fn components(&self) -> (&'static [&'static str], &'static [&'static str]) {
    (&["SubjectThreads", "SubscriberThreads", "MutArc (real std Mutex, try_lock through the hook)"], &["OS thread scheduling (baton scheduler)"])
  }
  fn generate(&self, rng: &mut Rng, _tier: Tier) -> Value {
    let nt = rng.range(2, 3);
    let stable = rng.range(1, 2);
    let leavers = rng.below(2);
    let mut threads = Vec::new();
    let mut terminal_used = false;
    let mut shut_used = false;
    for _ in 0..nt {
      let len = rng.range(1, 4);
      let mut ops = Vec::new();
      for i in 0..len {
        let op = match rng.weighted(&[8, 3, 2, 2, 1, 1, 2, 1]) {
          0 => TOp::Next,
          1 => TOp::Subscribe,
          2 => TOp::UnsubOwn,
          3 if leavers > 0 => TOp::UnsubPre(rng.below(leavers)),
          4 if !terminal_used && i + 1 == len => {
            terminal_used = true;
            TOp::Complete
          }
          5 if !terminal_used && i + 1 == len => {
            terminal_used = true;
            TOp::Error
          }
          6 => TOp::Size,
          7 if !shut_used && i + 1 == len => {
            shut_used = true;
            TOp::UnsubSubject
          }
          _ => TOp::Next,
        };
        ops.push(op);
      }
      threads.push(ops);
    }
    let strategy = match rng.below(4) {
      0 => Strategy::Random,
      1 => Strategy::Seq { den: 4 },
      _ => Strategy::Pct { d: rng.range(1, 3) as u8, k: 40 },
    };
    serde_json::to_value(TCase { stable, leavers, threads, sched: SchedSpec::Seeded { seed: rng.next_u64(), strategy } }).unwrap()
  }

  fn run(&self, case: &Value) -> Result<Outcome, String> {
    run_threads(case, false)
  }
}

fn run_threads(case: &Value, share: bool) -> Result<Outcome, String> {
  {
    let case: TCase = serde_json::from_value(case.clone()).map_err(|e| e.to_string())?;
    if case.threads.is_empty() || case.threads.len() > 4 || case.stable > 4 || case.leavers > 4 {
      return Err("bad shape".into());
    }
    if share && case.threads.iter().flatten().any(|o| matches!(o, TOp::UnsubSubject)) {
      return Err("no subject-level unsubscribe in the share arm".into());
    }
    let shr = Shared::new();
    let w = World::with_shared(shr.clone());
    let subject = SubjectThreads::<i64, E>::default();
    let subscribe: Arc<dyn Fn(Probe) -> TH + Send + Sync> = if share {
      let so = subject.clone().share_threads();
      Arc::new(move |p| Box::new(so.clone().actual_subscribe(p)) as TH)
    } else {
      let sj = subject.clone();
      Arc::new(move |p| Box::new(sj.clone().actual_subscribe(p)) as TH)
    };
    let n_pre = case.stable + case.leavers;
    // probes: pre-subscribed first, then one slot per (thread, op index) for Subscribe ops
    let mut logs: Vec<Arc<ProbeLog>> = Vec::new();
    let mut pre_handles: Vec<Option<TH>> = Vec::new();
    for _ in 0..n_pre {
      let l = ProbeLog::new(true);
      let u = subscribe(Probe(l.clone()));
      logs.push(l);
      pre_handles.push(Some(u));
    }
    let leaver_handles: Arc<Mutex<Vec<Option<TH>>>> =
      Arc::new(Mutex::new(pre_handles.drain(case.stable..).collect()));
    let mut dyn_slots: Vec<Vec<Option<usize>>> = Vec::new();
    for ops in &case.threads {
      let mut v = Vec::new();
      for op in ops {
        if matches!(op, TOp::Subscribe) {
          logs.push(ProbeLog::new(true));
          v.push(Some(logs.len() - 1));
        } else {
          v.push(None);
        }
      }
      dyn_slots.push(v);
    }
    let oplog: Arc<Mutex<Vec<OpRec>>> = Arc::new(Mutex::new(Vec::new()));
    let ts = TSim::new(shr.clone(), &case.sched, case.threads.len(), 0, 20_000);
    let mut bodies: Vec<Body> = Vec::new();
    for (t, ops) in case.threads.iter().enumerate() {
      let ops = ops.clone();
      let slots = dyn_slots[t].clone();
      let logs = logs.clone();
      let subject = subject.clone();
      let oplog = oplog.clone();
      let leaver_handles = leaver_handles.clone();
      let subscribe = subscribe.clone();
      let stable = case.stable;
      bodies.push(Box::new(move || {
        let mut subject = Some(subject);
        let mut own: Vec<(usize, TH)> = Vec::new();
        for (i, op) in ops.iter().enumerate() {
          let sh = shared();
          let Some(s) = subject.as_mut() else { break };
          match op {
            TOp::Next => {
              let item = (t as i64 + 1) * 100 + i as i64;
              let invoke = sh.stamp();
              s.next(item);
              let ret = sh.stamp();
              oplog.lock().unwrap().push(OpRec { tid: t, op: "next".into(), item, sub: 0, invoke, ret });
            }
            TOp::Subscribe => {
              let k = slots[i].unwrap();
              let invoke = sh.stamp();
              let u = subscribe(Probe(logs[k].clone()));
              let ret = sh.stamp();
              own.push((k, u));
              oplog.lock().unwrap().push(OpRec { tid: t, op: "subscribe".into(), item: 0, sub: k, invoke, ret });
            }
            TOp::UnsubOwn => {
              if let Some((k, u)) = own.pop() {
                let invoke = sh.stamp();
                u.unsub();
                let ret = sh.stamp();
                oplog.lock().unwrap().push(OpRec { tid: t, op: "unsubscribe".into(), item: 0, sub: k, invoke, ret });
              }
            }
            TOp::UnsubPre(j) => {
              let h = {
                let mut lh = leaver_handles.lock().unwrap();
                let n = lh.len();
                if n == 0 { None } else { lh[*j % n].take().map(|h| (stable + *j % n, h)) }
              };
              if let Some((k, u)) = h {
                let invoke = sh.stamp();
                u.unsub();
                let ret = sh.stamp();
                oplog.lock().unwrap().push(OpRec { tid: t, op: "unsubscribe".into(), item: 0, sub: k, invoke, ret });
              }
            }
            TOp::Size => {
              let n = s.len();
              let e = s.is_empty();
              // a consistent pair when nothing races; under races only "returns" is required
              let _ = (n, e);
            }
            TOp::UnsubSubject => {
              let s = subject.take().unwrap();
              let invoke = sh.stamp();
              s.unsubscribe();
              let ret = sh.stamp();
              oplog.lock().unwrap().push(OpRec { tid: t, op: "shut".into(), item: 0, sub: 0, invoke, ret });
            }
            TOp::Complete | TOp::Error => {
              let s = subject.take().unwrap();
              let invoke = sh.stamp();
              if matches!(op, TOp::Complete) {
                s.complete()
              } else {
                s.error(9)
              }
              let ret = sh.stamp();
              oplog.lock().unwrap().push(OpRec { tid: t, op: "terminal".into(), item: 0, sub: 0, invoke, ret });
            }
          }
          harness_yield("between-ops");
        }
        drop(own);
      }));
    }
    let rep = ts.run(bodies);
    let ops = oplog.lock().unwrap().clone();
    let violation = judge_threads(&case, &rep, &ops, &logs);
    let mut h = rep.trace_hash;
    for l in &logs {
      for r in l.records() {
        h = hash_mix(h, hash_str(&fmt_ev(&r.ev)) ^ r.tid as u64);
      }
      h = hash_mix(h, 5);
    }
    let sample = format!(
      "threads={:?} decisions={} preemptions={} => {}",
      case.threads,
      rep.decisions.len(),
      rep.preemptions,
      logs.iter().enumerate().map(|(k, l)| format!("s{}=[{}]", k, fmt_trace(&l.events()))).collect::<Vec<_>>().join(" ")
    );
    let mut resolved = case.clone();
    resolved.sched = SchedSpec::Explicit(rep.decisions.clone());
    drop(leaver_handles);
    drop(pre_handles);
    drop(subject);
    drop(w);
    Ok(Outcome {
      violation,
      trace_hash: h,
      nontrivial: rep.multi_choice > 0,
      sim_ns: 0,
      steps: rep.steps,
      faults: vec![("preemption_at_lock_point", rep.preemptions), ("lock_contention", rep.contentions)],
      reach: vec![("try_lock_contention_observed", (rep.contentions > 0) as u64)],
      resolved: Some(serde_json::to_value(resolved).unwrap()),
      sample,
    })
  }
}

impl Scenario for C11Threads {
  fn name(&self) -> &'static str {
    "c11.threads"
  }
  fn components(&self) -> (&'static [&'static str], &'static [&'static str]) {
    (&["share_threads over a SubjectThreads source: ShareOpThreads, RefCountSubscription, inner SubjectThreads (MutArc locks interleaved)"], &["OS thread scheduling (baton scheduler)"])
  }
  fn generate(&self, rng: &mut Rng, tier: Tier) -> Value {
    // the subject scenario's histories without the subject-level unsubscribe
    loop {
      let v = C06Threads.generate(rng, tier);
      let mut c: TCase = serde_json::from_value(v.clone()).unwrap();
      if !c.threads.iter().flatten().any(|o| matches!(o, TOp::UnsubSubject)) {
        // one case in three starts with nobody subscribed: the first subscribe
        // (which connects the source) then races the other threads' operations
        if rng.chance(1, 3) {
          c.stable = 0;
          c.leavers = 0;
          for t in c.threads.iter_mut() {
            if rng.chance(1, 2) {
              t.insert(0, TOp::Subscribe);
            }
          }
        }
        return serde_json::to_value(c).unwrap();
      }
    }
  }
  fn run(&self, case: &Value) -> Result<Outcome, String> {
    let mut o = run_threads(case, true)?;
    if let Some(v) = o.violation.as_mut() {
      v.rule = v.rule.replace("c06.", "c11.");
      v.site = "share_threads".into();
    }
    Ok(o)
  }
}

fn judge_threads(case: &TCase, rep: &TReport, ops: &[OpRec], logs: &[Arc<ProbeLog>]) -> Option<Violation> {
  let site = "SubjectThreads".to_string();
  if let Some(d) = &rep.deadlock {
    return Some(Violation { rule: "c06.deadlock".into(), site, detail: d.clone() });
  }
  if rep.budget_overrun {
    return Some(Violation { rule: "c06.livelock".into(), site, detail: "step budget exhausted".into() });
  }
  if let Some((t, m)) = rep.panics.first() {
    return Some(Violation { rule: "c06.panic".into(), site, detail: format!("thread {} panicked: {}", t, m) });
  }
  let terminal = ops.iter().find(|o| o.op == "terminal");
  // unsubscribe() of the subject itself: ends deliveries like a terminal, without a notification
  let shut = ops.iter().find(|o| o.op == "shut");
  for (k, l) in logs.iter().enumerate() {
    let recs = l.records();
    let evs: Vec<Ev> = recs.iter().map(|r| r.ev.clone()).collect();
    if let Some(i) = grammar_violation(&evs) {
      return Some(Violation { rule: "c06.grammar".into(), site, detail: format!("subscriber {}: event #{} after terminal: [{}]", k, i, fmt_trace(&evs)) });
    }
    // at most once, per-producer order
    let items: Vec<i64> = evs.iter().filter_map(|e| if let Ev::Next(Val::I(i)) = e { Some(*i) } else { None }).collect();
    for (i, a) in items.iter().enumerate() {
      if items[..i].contains(a) {
        return Some(Violation { rule: "c06.duplicate".into(), site, detail: format!("subscriber {} got item {} twice: {:?}", k, a, items) });
      }
    }
    for t in 0..case.threads.len() {
      let mine: Vec<i64> = items.iter().copied().filter(|x| x / 100 == t as i64 + 1).collect();
      if mine.windows(2).any(|w| w[0] > w[1]) {
        return Some(Violation { rule: "c06.producer-order".into(), site, detail: format!("subscriber {} saw thread {}'s items out of order: {:?}", k, t, mine) });
      }
    }
    // real-time rules
    let sub_op = ops.iter().find(|o| o.op == "subscribe" && o.sub == k);
    let unsub_op = ops.iter().find(|o| o.op == "unsubscribe" && o.sub == k);
    let pre = k < case.stable + case.leavers;
    for n in ops.iter().filter(|o| o.op == "next") {
      let delivered = items.contains(&n.item);
      let joined_before = pre || sub_op.map_or(false, |s| s.ret < n.invoke);
      let joined_after = !pre && sub_op.map_or(true, |s| s.invoke > n.ret);
      let left_before = unsub_op.map_or(false, |u| u.ret < n.invoke);
      let left_after_or_never = unsub_op.map_or(true, |u| u.invoke > n.ret);
      let term_before = terminal.map_or(false, |t| t.ret < n.invoke) || shut.map_or(false, |t| t.ret < n.invoke);
      let term_after_or_never = terminal.map_or(true, |t| t.invoke > n.ret) && shut.map_or(true, |t| t.invoke > n.ret);
      if joined_before && left_after_or_never && term_after_or_never && !delivered {
        return Some(Violation {
          rule: "c06.missed".into(),
          site,
          detail: format!("subscriber {} was subscribed throughout next({}) [{}..{}] but did not receive it: {:?}", k, n.item, n.invoke, n.ret, items),
        });
      }
      if (joined_after || left_before || term_before) && delivered {
        return Some(Violation {
          rule: "c06.delivered-outside-membership".into(),
          site,
          detail: format!("subscriber {} received {} although it had left / not yet joined / the subject had terminated before next() was invoked", k, n.item),
        });
      }
    }
    // no delivery after own unsubscribe returned
    if let Some(u) = unsub_op {
      if let Some(r) = recs.iter().find(|r| r.seq > u.ret) {
        return Some(Violation { rule: "c06.after-unsubscribe".into(), site, detail: format!("subscriber {} got {:?} after its unsubscribe() returned", k, r.ev) });
      }
    }
    // nothing at all after the subject's own unsubscribe() returned
    if let Some(u) = shut {
      if let Some(r) = recs.iter().find(|r| r.seq > u.ret) {
        return Some(Violation { rule: "c06.after-unsubscribe".into(), site, detail: format!("subscriber {} got {:?} after unsubscribe() of the subject returned", k, r.ev) });
      }
    }
    // terminal: stable subscribers get it exactly once when one was issued
    // (unless the subject was unsubscribed before or while it was issued)
    if let Some(t) = terminal {
      if k < case.stable {
        let n_term = evs.iter().filter(|e| e.is_terminal()).count();
        let shut_interferes = shut.map_or(false, |u| u.invoke < t.ret);
        if n_term > 1 || (n_term != 1 && !shut_interferes) {
          return Some(Violation { rule: "c06.terminal-count".into(), site, detail: format!("stable subscriber {} got {} terminals (terminal op {}..{})", k, n_term, t.invoke, t.ret) });
        }
      }
    }
  }
  // stable subscribers: one common order
  let order0: Option<Vec<i64>> = logs.first().map(|l| l.events().iter().filter_map(|e| if let Ev::Next(Val::I(i)) = e { Some(*i) } else { None }).collect());
  if let Some(o0) = order0 {
    for k in 1..case.stable {
      let ok: Vec<i64> = logs[k].events().iter().filter_map(|e| if let Ev::Next(Val::I(i)) = e { Some(*i) } else { None }).collect();
      if ok != o0 {
        return Some(Violation { rule: "c06.common-order".into(), site, detail: format!("stable subscribers disagree: s0={:?} s{}={:?}", o0, k, ok) });
      }
    }
  }
  // callbacks of one subscriber never overlap
  for (k, l) in logs.iter().enumerate() {
    if l.overlap.load(std::sync::atomic::Ordering::SeqCst) {
      return Some(Violation { rule: "c06.overlap".into(), site, detail: format!("subscriber {} was called on two threads at once", k) });
    }
  }
  None
}

pub fn check_def() -> PropertyCheck {
  PropertyCheck {
    id: "C06",
    scenarios: vec![Box::new(C06Des), Box::new(C06Threads)],
    runs: (300_000, 16_000_000),
    rule: "DES case = subject flavour (Subject, SubjectThreads, MutRefItem, MutRefErr, MutRefItemErr) + history of <=14 ops (subscribe, unsubscribe-one, next, error, complete, clone, retain, unsubscribe-subject, subscribe-from-inside-a-callback) through up to 3 cloned handles; thread case = 2-3 threads x <=4 ops on one SubjectThreads with 1-2 stable and 0-1 leaving subscribers under a seeded lock-level schedule; non-trivial = >=2 subscribers or an op after terminal or an inside-join (DES) / >=1 scheduling decision with >1 eligible thread (threads); distinct = distinct (case, behaviour) hashes",
    assumptions: vec![
      "callbacks do not re-enter the subject except for the subscribe-from-inside case the property names",
      "thread part: interleavings at MutArc lock granularity, sequentially consistent",
    ],
  }
}
