//! C11 — publish/connect and share subscribe the source once and multicast.

use crate::framework::*;
use crate::probe::*;
use crate::rng::Rng;
use crate::world::*;
use rxrust::ops::box_it::{BoxOp, BoxOpThreads};
use rxrust::prelude::*;
use serde::{Deserialize, Serialize};
use serde_json::Value;
use std::sync::atomic::{AtomicUsize, Ordering::SeqCst};
use std::sync::{Arc, Mutex};
use std::time::Duration;

#[derive(Clone, Debug, Serialize, Deserialize, PartialEq)]
pub enum Kind {
  Publish,
  Share,
}

#[derive(Clone, Debug, Serialize, Deserialize, PartialEq)]
pub enum Src {
  Hot,
  ColdSync(usize),
  Interval(u32),
}

#[derive(Clone, Debug, Serialize, Deserialize, PartialEq)]
pub enum Act {
  Sub,
  /// publish only: subscribe to the connectable value itself (which consumes
  /// it: it can no longer be connected, and its source must never be subscribed)
  SubDirect,
  /// a subscriber that, inside its first `next` callback, subscribes one more
  /// subscriber to the same shared / published observable (for a cold
  /// synchronous source the only way to join between two source events)
  SubArmed,
  Unsub(usize),
  Emit,
  SrcComplete,
  SrcError,
  Connect,
  Run,
  Advance(u32),
}

#[derive(Clone, Debug, Serialize, Deserialize)]
pub struct Case {
  kind: Kind,
  threads_flavour: bool,
  src: Src,
  acts: Vec<Act>,
}

/// counts subscriptions to the wrapped source
#[derive(Clone)]
pub struct CountSrc<S> {
  inner: S,
  subs: Arc<AtomicUsize>,
}
impl<S> CountSrc<S> {
  pub fn new(inner: S, subs: Arc<AtomicUsize>) -> Self {
    CountSrc { inner, subs }
  }
}
impl<S, O> Observable<Val, E, O> for CountSrc<S>
where
  S: Observable<Val, E, O>,
  O: Observer<Val, E>,
{
  type Unsub = S::Unsub;
  fn actual_subscribe(self, o: O) -> S::Unsub {
    self.subs.fetch_add(1, SeqCst);
    self.inner.actual_subscribe(o)
  }
}
impl<S> ObservableExt<Val, E> for CountSrc<S> {}

type TapLog = Arc<Mutex<Vec<(Val, u64)>>>;

struct SubRec {
  log: Arc<ProbeLog>,
  invoke: u64,
  ret: u64,
  unsub_invoke: Option<u64>,
  handle: Option<Box<dyn crate::props::c06::SubHandle>>,
}

thread_local! {
  /// subscribers that joined from inside a callback during the current action
  static JOINED: std::cell::RefCell<Vec<SubRec>> = const { std::cell::RefCell::new(Vec::new()) };
}

/// A probe that subscribes one more probe from inside its first `next`.
struct JoinProbe<J> {
  inner: Probe,
  armed: Arc<std::sync::atomic::AtomicBool>,
  join: J,
}
impl<J> Observer<Val, E> for JoinProbe<J>
where
  J: Fn(Probe) -> Box<dyn crate::props::c06::SubHandle>,
{
  fn next(&mut self, v: Val) {
    Observer::<Val, E>::next(&mut self.inner, v);
    if self.armed.swap(false, SeqCst) {
      let log = ProbeLog::new(false);
      let invoke = shared().stamp();
      let h = (self.join)(Probe(log.clone()));
      let ret = shared().stamp();
      JOINED.with(|j| j.borrow_mut().push(SubRec { log, invoke, ret, unsub_invoke: None, handle: Some(h) }));
    }
  }
  fn error(self, e: E) {
    Observer::<Val, E>::error(self.inner, e)
  }
  fn complete(self) {
    Observer::<Val, E>::complete(self.inner)
  }
  fn is_finished(&self) -> bool {
    Observer::<Val, E>::is_finished(&self.inner)
  }
}

pub struct C11;

impl Scenario for C11 {
  fn name(&self) -> &'static str {
    "c11.des"
  }
  fn weight(&self) -> usize {
    5
  }
  fn components(&self) -> (&'static [&'static str], &'static [&'static str]) {
    (
      &["ops/ref_count.rs (ShareOp, ShareOpThreads, RefCountSubscription)", "observable/connectable_observable.rs", "subject.rs", "interval + RepeatTask"],
      &["executor, timer, clock (sim)"],
    )
  }
  fn generate(&self, rng: &mut Rng, tier: Tier) -> Value {
    let kind = if rng.chance(2, 3) { Kind::Share } else { Kind::Publish };
    let src = match rng.below(5) {
      0 => Src::ColdSync(rng.below(3)),
      1 => Src::Interval(*rng.pick(&[1, 3])),
      _ => Src::Hot,
    };
    let deep = deepen(rng, tier);
    let len = rng.range(3, 12 * deep);
    let mut acts = Vec::new();
    let mut live = 0usize;
    let mut ever = 0usize;
    let mut all_left = false;
    for _ in 0..len {
      let a = match rng.weighted(&[5, 3, 6, 1, 1, if kind == Kind::Publish { 2 } else { 0 }, 3, 3, if kind == Kind::Publish && ever < 4 { 1 } else { 0 }, if ever < 3 { 1 } else { 0 }]) {
        8 => {
          live += 1;
          ever += 1;
          Act::SubDirect
        }
        9 => {
          live += 2;
          ever += 2;
          all_left = false;
          Act::SubArmed
        }
        0 if (!all_left || rng.chance(1, 2)) && ever < 4 => {
          all_left = false;
          live += 1;
          ever += 1;
          Act::Sub
        }
        1 if live > 0 => {
          live -= 1;
          if live == 0 && kind == Kind::Share {
            all_left = true;
          }
          Act::Unsub(rng.below(ever))
        }
        3 => Act::SrcComplete,
        4 => Act::SrcError,
        5 => Act::Connect,
        6 => Act::Run,
        7 => Act::Advance(*rng.pick(&[1, 2, 5])),
        _ => Act::Emit,
      };
      acts.push(a);
    }
    serde_json::to_value(Case { kind, threads_flavour: rng.chance(1, 3), src, acts }).unwrap()
  }

  fn run(&self, case: &Value) -> Result<Outcome, String> {
    let case: Case = serde_json::from_value(case.clone()).map_err(|e| e.to_string())?;
    if matches!(case.src, Src::Interval(0)) || matches!(case.src, Src::ColdSync(n) if n > 50) || case.acts.len() > 60 {
      return Err("bad shape".into());
    }
    let w = World::new();
    let subs_count = Arc::new(AtomicUsize::new(0));
    let tap: TapLog = Arc::new(Mutex::new(Vec::new()));
    let mut hot_l = Subject::<'static, Val, E>::default();
    let mut hot_s = SubjectThreads::<Val, E>::default();
    let site = format!("{:?}{}", case.kind, if case.threads_flavour { "_threads" } else { "" }).to_lowercase();

    // subscriber factory + connect closure, per flavour
    let subscribe_fn: Box<dyn Fn(Probe) -> Box<dyn crate::props::c06::SubHandle>>;
    let arm_fn: Box<dyn Fn(Probe) -> Box<dyn crate::props::c06::SubHandle>>;
    let mut connect_fn: Option<Box<dyn FnOnce() -> bool>> = None;
    let mut direct_fn: Option<Box<dyn FnOnce(Probe) -> Option<Box<dyn crate::props::c06::SubHandle>>>> = None;
    macro_rules! build {
      ($hot:expr, $boxty:ty, $sched:expr, $subject:ty, $share:ident) => {{
        let tap2 = tap.clone();
        let src: $boxty = match &case.src {
          Src::Hot => $hot.clone().box_it(),
          Src::ColdSync(n) => observable::from_iter((0..*n as i64).map(Val::I)).on_error_map(|_| 0).box_it(),
          Src::Interval(p) => observable::interval(Duration::from_millis(*p as u64), $sched)
            .map(|i| Val::I(i as i64))
            .on_error_map(|_| 0)
            .box_it(),
        };
        let src = CountSrc { inner: src, subs: subs_count.clone() }.tap(move |v: &Val| {
          let st = shared().stamp();
          tap2.lock().unwrap().push((v.clone(), st));
        });
        match case.kind {
          Kind::Share => {
            let s = src.$share();
            let s2 = s.clone();
            arm_fn = Box::new(move |p| {
              let s3 = s2.clone();
              let join = move |q: Probe| -> Box<dyn crate::props::c06::SubHandle> { Box::new(s3.clone().actual_subscribe(q)) };
              Box::new(s2.clone().actual_subscribe(JoinProbe { inner: p, armed: Arc::new(std::sync::atomic::AtomicBool::new(true)), join }))
            });
            subscribe_fn = Box::new(move |p| Box::new(s.clone().actual_subscribe(p)));
          }
          Kind::Publish => {
            let c = src.publish::<$subject>();
            let f = c.fork();
            let f2 = f.clone();
            arm_fn = Box::new(move |p| {
              let f3 = f2.clone();
              let join = move |q: Probe| -> Box<dyn crate::props::c06::SubHandle> { Box::new(f3.clone().actual_subscribe(q)) };
              Box::new(f2.clone().actual_subscribe(JoinProbe { inner: p, armed: Arc::new(std::sync::atomic::AtomicBool::new(true)), join }))
            });
            subscribe_fn = Box::new(move |p| Box::new(f.clone().actual_subscribe(p)));
            let cell = std::rc::Rc::new(std::cell::RefCell::new(Some(c)));
            let (c1, c2) = (cell.clone(), cell);
            connect_fn = Some(Box::new(move || match c1.borrow_mut().take() {
              Some(c) => {
                let _connection = c.connect();
                true
              }
              None => false,
            }));
            direct_fn = Some(Box::new(move |p| c2.borrow_mut().take().map(|c| Box::new(c.actual_subscribe(p)) as Box<dyn crate::props::c06::SubHandle>)));
          }
        }
      }};
    }
    if case.threads_flavour {
      build!(hot_s, BoxOpThreads<Val, E>, shared_sched(), SubjectThreads<Val, E>, share_threads);
    } else {
      build!(hot_l, BoxOp<'static, Val, E>, local_sched(), Subject<'static, Val, E>, share);
    }

    let mut subs: Vec<SubRec> = Vec::new();
    let mut connected_at: Option<u64> = None;
    let mut terminal: Option<(Ev, u64)> = None;
    let mut last_left_at: Option<(u64, usize)> = None; // (stamp, tap len at that moment)
    let mut violation: Option<Violation> = None;
    let mut trace = String::new();
    let mut n = 100i64;
    let mut emits_after_leave = 0u64;
    let mut rejoined = 0u64;
    let period_ns = match case.src {
      Src::Interval(p) => p as u64 * MS,
      _ => 0,
    };
    let mut left_time: Option<u64> = None;
    let mut joined_inside = 0u64;
    JOINED.with(|j| j.borrow_mut().clear());

    for a in &case.acts {
      match a {
        Act::Sub | Act::SubArmed => {
          // a subscriber joining after everybody had left starts a new epoch: whatever
          // the source still emits on the share's behalf must reach it (presence oracle)
          if last_left_at.is_some() {
            last_left_at = None;
            left_time = None;
            rejoined += 1;
          }
          let log = ProbeLog::new(false);
          let invoke = w.shared.stamp();
          let armed = *a == Act::SubArmed;
          let h = match std::panic::catch_unwind(std::panic::AssertUnwindSafe(|| if armed { arm_fn(Probe(log.clone())) } else { subscribe_fn(Probe(log.clone())) })) {
            Ok(h) => h,
            Err(p) => {
              let msg = panic_message(&*p);
              let rule = if msg.contains("SelfDeadlock") { "c11.self-deadlock" } else { "c11.panic" };
              violation = Some(Violation { rule: rule.into(), site: format!("{} src={}", site, src_name(&case.src)), detail: format!("`{}` then {}: {}", trace.trim(), if armed { "a subscriber that lets another one join from inside its first callback subscribed" } else { "subscribe" }, msg) });
              break;
            }
          };
          let ret = w.shared.stamp();
          if case.kind == Kind::Share && connected_at.is_none() {
            connected_at = Some(invoke);
          }
          subs.push(SubRec { log, invoke, ret, unsub_invoke: None, handle: Some(h) });
          trace.push_str(&format!("sub{}{} ", subs.len() - 1, if armed { "(lets one more join from inside its first callback)" } else { "" }));
        }
        Act::Unsub(k) => {
          if subs.is_empty() {
            continue;
          }
          let k = *k % subs.len();
          if let Some(h) = subs[k].handle.take() {
            subs[k].unsub_invoke = Some(w.shared.stamp());
            h.unsub();
            trace.push_str(&format!("unsub{} ", k));
            if case.kind == Kind::Share && subs.iter().all(|s| s.handle.is_none()) {
              last_left_at = Some((w.shared.stamp(), tap.lock().unwrap().len()));
              left_time = Some(w.now());
            }
          }
        }
        Act::Emit => {
          if case.src == Src::Hot {
            n += 1;
            if last_left_at.is_some() {
              emits_after_leave += 1;
            }
            if case.threads_flavour {
              hot_s.next(Val::I(n))
            } else {
              hot_l.next(Val::I(n))
            }
            trace.push_str(&format!("emit{} ", n));
          }
        }
        Act::SrcComplete | Act::SrcError => {
          if case.src == Src::Hot {
            let ev = if *a == Act::SrcComplete { Ev::Complete } else { Ev::Err(6) };
            if terminal.is_none() {
              terminal = Some((ev.clone(), w.shared.stamp()));
            }
            match (&ev, case.threads_flavour) {
              (Ev::Complete, false) => hot_l.clone().complete(),
              (Ev::Complete, true) => hot_s.clone().complete(),
              (_, false) => hot_l.clone().error(6),
              (_, true) => hot_s.clone().error(6),
            }
            trace.push_str(if *a == Act::SrcComplete { "src-complete " } else { "src-error " });
          }
        }
        Act::SubDirect => {
          if let Some(d) = direct_fn.take() {
            let log = ProbeLog::new(false);
            let invoke = w.shared.stamp();
            if let Some(h) = d(Probe(log.clone())) {
              let ret = w.shared.stamp();
              subs.push(SubRec { log, invoke, ret, unsub_invoke: None, handle: Some(h) });
              trace.push_str(&format!("sub{}(the connectable itself) ", subs.len() - 1));
            }
          }
        }
        Act::Connect => {
          if let Some(c) = connect_fn.take() {
            let at = w.shared.stamp();
            if c() {
              connected_at = Some(at);
              trace.push_str("connect ");
            }
          }
        }
        Act::Run => {
          w.run_ready_fifo(50);
        }
        Act::Advance(ms) => {
          w.advance_by(*ms as u64 * MS);
          w.run_ready_fifo(50);
          trace.push_str(&format!("+{}ms ", ms));
        }
      }
      for j in JOINED.with(|j| std::mem::take(&mut *j.borrow_mut())) {
        subs.push(j);
        joined_inside += 1;
        trace.push_str(&format!("(sub{} joined from inside a callback) ", subs.len() - 1));
      }
      // ---- invariants
      if violation.is_none() {
        let sc = subs_count.load(SeqCst);
        let want = connected_at.is_some() as usize;
        if sc != want {
          violation = Some(Violation {
            rule: if sc > want { "c11.source-subscribed-too-often" } else { "c11.source-not-subscribed" }.into(),
            site: site.clone(),
            detail: format!("`{}`: source has been subscribed {} time(s), expected {}", trace.trim(), sc, want),
          });
        }
      }
      if violation.is_none() {
        violation = check_deliveries(&case, &site, &trace, &subs, &tap, &terminal, connected_at);
      }
      if violation.is_none() {
        if let Some((_, len)) = last_left_at {
          let now_len = tap.lock().unwrap().len();
          if now_len > len {
            violation = Some(Violation {
              rule: "c11.source-driven-after-last-leave".into(),
              site: format!("{} src={}", site, src_name(&case.src)),
              detail: format!("`{}`: after the last subscriber left, the upstream tap ran {} more time(s)", trace.trim(), now_len - len),
            });
          }
        }
      }
      if violation.is_some() {
        break;
      }
    }
    // bounded liveness for periodic sources: one period after the last leave the
    // executor must be idle
    if violation.is_none() && period_ns > 0 {
      if let Some(t) = left_time {
        let until = t.max(w.now()) + period_ns + MS;
        let idle = w.quiesce(200, until);
        let more = tap.lock().unwrap().len() - last_left_at.unwrap().1;
        if !idle || w.live_tasks() > 0 || more > 0 {
          violation = Some(Violation {
            rule: "c11.source-driven-after-last-leave".into(),
            site: format!("{} src=interval", site),
            detail: format!("`{}`: one period after the last subscriber left the interval task is still alive (live tasks={}, further ticks={})", trace.trim(), w.live_tasks(), more),
          });
        }
      }
    }
    // bounded liveness the other way round: while the connection stands (publish:
    // connected; share: a subscriber present and nobody has ever emptied it) a
    // periodic source keeps being driven, so a subscriber present for three
    // periods of prompt execution receives something
    let mut liveness_probed = 0u64;
    if violation.is_none() && period_ns > 0 && terminal.is_none() && rejoined == 0 && last_left_at.is_none() {
      let standing = match case.kind {
        Kind::Publish => connected_at.is_some(),
        Kind::Share => subs.iter().any(|s| s.handle.is_some()),
      };
      if standing {
        let log = ProbeLog::new(false);
        let h = subscribe_fn(Probe(log.clone()));
        for _ in 0..3 {
          w.advance_by(period_ns);
          w.run_ready_fifo(200);
        }
        liveness_probed = 1;
        if log.events().is_empty() {
          violation = Some(Violation {
            rule: "c11.connected-source-not-driven".into(),
            site: format!("{} src=interval", site),
            detail: format!("`{}`: the connection stands, yet a subscriber present for three further periods (executor run as timers fell due) received nothing", trace.trim()),
          });
        }
        h.unsub();
      }
    }
    let mut h = hash_str(&trace);
    for s in &subs {
      h = hash_mix(h, hash_str(&fmt_trace(&s.log.events())));
    }
    let sample = format!(
      "{} src={:?}: {} => subs_to_source={} {}",
      site,
      case.src,
      trace.trim(),
      subs_count.load(SeqCst),
      subs.iter().enumerate().map(|(k, s)| format!("s{}=[{}]", k, fmt_trace(&s.log.events()))).collect::<Vec<_>>().join(" ")
    );
    let nsubs = subs.len();
    drop(subs);
    drop(subscribe_fn);
    drop(arm_fn);
    drop(connect_fn);
    drop(direct_fn);
    let sim = w.now();
    drop(w);
    Ok(Outcome {
      violation,
      trace_hash: h,
      nontrivial: nsubs >= 2 || last_left_at.is_some(),
      sim_ns: sim,
      steps: case.acts.len() as u64,
      faults: vec![("emit_after_last_leave", emits_after_leave), ("subscribe_again_after_everybody_left", rejoined), ("last_subscriber_left_with_live_source", last_left_at.is_some() as u64)],
      reach: vec![("last_share_subscriber_left_with_source_live", (last_left_at.is_some() && terminal.is_none()) as u64), ("standing_connection_probed_for_liveness", liveness_probed), ("subscriber_joined_from_inside_a_callback", joined_inside)],
      resolved: None,
      sample,
    })
  }
}

fn src_name(s: &Src) -> &'static str {
  match s {
    Src::Hot => "hot",
    Src::ColdSync(_) => "cold",
    Src::Interval(_) => "interval",
  }
}

fn check_deliveries(
  case: &Case,
  site: &str,
  trace: &str,
  subs: &[SubRec],
  tap: &TapLog,
  terminal: &Option<(Ev, u64)>,
  connected_at: Option<u64>,
) -> Option<Violation> {
  let tap = tap.lock().unwrap();
  for (k, s) in subs.iter().enumerate() {
    let got = s.log.events();
    let items: Vec<&Val> = got.iter().filter_map(|e| if let Ev::Next(v) = e { Some(v) } else { None }).collect();
    // must-have: emissions strictly inside the presence interval; may-have: during own subscribe call
    let mut must = Vec::new();
    let mut may = Vec::new();
    for (v, st) in tap.iter() {
      if connected_at.map_or(true, |c| *st < c) {
        continue;
      }
      let after_join = *st > s.ret;
      let during_join = *st > s.invoke && *st < s.ret;
      let before_leave = s.unsub_invoke.map_or(true, |u| *st < u);
      if after_join && before_leave {
        must.push(v);
        may.push(v);
      } else if during_join && before_leave {
        may.push(v);
      }
    }
    // got items must contain `must` as a subsequence-equal filtered by may
    let ok = {
      // every got item is in may (in order), every must item is in got
      let mut mi = 0;
      let mut all_in_may = true;
      for g in &items {
        let mut found = false;
        while mi < may.len() {
          if may[mi] == *g {
            found = true;
            mi += 1;
            break;
          }
          mi += 1;
        }
        if !found {
          all_in_may = false;
          break;
        }
      }
      let mut gi = 0;
      let mut all_must = true;
      for m in &must {
        let mut found = false;
        while gi < items.len() {
          if items[gi] == *m {
            found = true;
            gi += 1;
            break;
          }
          gi += 1;
        }
        if !found {
          all_must = false;
          break;
        }
      }
      all_in_may && all_must
    };
    if !ok {
      return Some(Violation {
        rule: "c11.multicast".into(),
        site: site.to_string(),
        detail: format!(
          "`{}`: subscriber {} received [{}]; source emissions while it was present: [{}]",
          trace.trim(),
          k,
          fmt_trace(&got),
          must.iter().map(|v| fmt_val(v)).collect::<Vec<_>>().join(" ")
        ),
      });
    }
    if let Some(i) = grammar_violation(&got) {
      return Some(Violation { rule: "c11.grammar".into(), site: site.to_string(), detail: format!("subscriber {} event #{} after terminal: [{}]", k, i, fmt_trace(&got)) });
    }
    // terminal of a hot source reaches present subscribers
    if let (Src::Hot, Some((ev, st))) = (&case.src, terminal) {
      let present = *st > s.ret && s.unsub_invoke.map_or(true, |u| *st < u) && connected_at.map_or(false, |c| *st > c);
      let got_term = got.iter().any(|e| e.is_terminal());
      if present && !got.contains(ev) {
        return Some(Violation { rule: "c11.terminal-missed".into(), site: site.to_string(), detail: format!("`{}`: subscriber {} present at the source's {:?} did not receive it: [{}]", trace.trim(), k, ev, fmt_trace(&got)) });
      }
      if !present && got_term && !(*st > s.invoke && *st < s.ret) {
        return Some(Violation { rule: "c11.terminal-unexpected".into(), site: site.to_string(), detail: format!("`{}`: subscriber {} not present at the terminal still received one: [{}]", trace.trim(), k, fmt_trace(&got)) });
      }
    }
  }
  None
}

pub fn check_def() -> PropertyCheck {
  PropertyCheck {
    id: "C11",
    scenarios: vec![
      Box::new(C11),
      // subscribers joining share_threads from racing threads: the source must still be subscribed once
      Box::new(OnlyRules { inner: Box::new(crate::props::c02t::C10Share), keep: &[".source-subscribed-twice"] }),
      // subscribers of share_threads joining / leaving on other threads while the source emits:
      // whoever is present throughout an emission receives it, once
      Box::new(OnlyRules { inner: Box::new(crate::props::c06::C11Threads), keep: &[".missed", ".duplicate", ".terminal-count", ".deadlock", ".livelock", ".panic"] }),
    ],
    runs: (300_000, 25_000_000),
    rule: "case = publish | share (local and _threads) over a hot subject / cold synchronous source / interval on the simulated executor, with a subscription counter and a tap upstream, + history of <=12 acts (subscribe, unsubscribe k, emit, source complete/error, connect, run tasks, advance clock); non-trivial = >=2 subscribers or the last share subscriber left; distinct = distinct (case, behaviour) hashes; plus the c10.share thread scenario (2-3 threads subscribing to / emitting into one share_threads pipeline under seeded lock-level schedules) judged only by 'the source is subscribed once'; plus c11.threads (the subject thread scenario with the subscribers attached to source.share_threads()) judged by missed / duplicate / terminal-count",
    assumptions: vec!["a subscriber that joins a share() after everybody had left is judged only by the presence rule (it must receive what the source still emits on the share's behalf, as seen by the upstream tap)"],
  }
}
