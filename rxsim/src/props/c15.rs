//! C15 — finalize runs its callback exactly once per subscription.

use crate::framework::*;
use crate::probe::*;
use crate::rng::Rng;
use crate::threadsim::*;
use crate::world::*;
use rxrust::prelude::*;
use serde::{Deserialize, Serialize};
use serde_json::Value;
use std::sync::atomic::{AtomicU64, AtomicUsize, Ordering::SeqCst};
use std::sync::{Arc, Mutex};

#[derive(Clone, Debug, Serialize, Deserialize, PartialEq)]
pub enum Trig {
  Complete,
  Error,
  Unsub,
  DropGuard,
  /// an item (no trigger)
  Next,
  /// let the executor run until idle (virtual time passes)
  RunIdle,
}

#[derive(Clone, Debug, Serialize, Deserialize, PartialEq)]
pub enum Src {
  Hot,
  /// cold synchronous source of n items, completes inside subscribe
  ColdSync(usize),
  /// `throw`-like: fails inside subscribe
  ColdErr,
  /// interval(1ms).finalize(f).take(n): the downstream ends the stream, the
  /// finalize observer upstream never sees a terminal; only unsubscribe is left
  IntervalTake(usize),
  /// a hot subject that has been torn down (`unsubscribe()` on a clone) before
  /// the subscription is made: no terminal ever passes through finalize, the
  /// upstream part reports closed from the start; only unsubscribe is left
  HotShut,
}

#[derive(Clone, Debug, Serialize, Deserialize)]
pub struct Case {
  threads_flavour: bool,
  src: Src,
  /// finalize is followed by a pass-through operator chain of this length
  tail: usize,
  trigs: Vec<Trig>,
}

struct Fin {
  count: Arc<AtomicUsize>,
  stamp: Arc<AtomicU64>,
  /// stamp at the first entry into the callback
  entry: Arc<AtomicU64>,
}

impl Fin {
  fn new() -> Self {
    Fin { count: Arc::new(AtomicUsize::new(0)), stamp: Arc::new(AtomicU64::new(u64::MAX)), entry: Arc::new(AtomicU64::new(u64::MAX)) }
  }
  fn callback(&self) -> impl FnMut() + Send + Clone + 'static {
    let c = self.count.clone();
    let s = self.stamp.clone();
    let e = self.entry.clone();
    move || {
      let _ = e.compare_exchange(u64::MAX, shared().stamp(), SeqCst, SeqCst);
      harness_yield("finalizer");
      c.fetch_add(1, SeqCst);
      s.store(shared().stamp(), SeqCst);
    }
  }
}

pub struct C15Des;

enum Handle {
  L(Option<Box<dyn FnOnce()>>, std::rc::Rc<dyn Fn() -> bool>),
}

impl Scenario for C15Des {
  fn name(&self) -> &'static str {
    "c15.des"
  }
  fn weight(&self) -> usize {
    2
  }
  fn components(&self) -> (&'static [&'static str], &'static [&'static str]) {
    (&["ops/finalize.rs (FinalizeOp, FinalizeOpThreads, FinalizerObserver, FinalizerSubscription)", "Subject/SubjectThreads", "SubscriptionGuard"], &[])
  }
  fn generate(&self, rng: &mut Rng, tier: Tier) -> Value {
    let src = match rng.below(7) {
      0 => Src::ColdSync(rng.below(3)),
      1 => Src::ColdErr,
      2 => Src::IntervalTake(rng.range(1, 2)),
      3 => Src::HotShut,
      _ => Src::Hot,
    };
    let mut trigs = Vec::new();
    let deep = deepen(rng, tier);
    for _ in 0..rng.range(0, 7 * deep) {
      trigs.push(match rng.weighted(&[3, 2, 2, 2, 1, if matches!(src, Src::IntervalTake(_)) { 4 } else { 0 }]) {
        0 => Trig::Next,
        1 => Trig::Complete,
        2 => Trig::Error,
        3 => Trig::Unsub,
        4 => Trig::DropGuard,
        _ => Trig::RunIdle,
      });
    }
    // tail 3 = a short-circuiting take(1) below finalize; tail 4 = take(1) and a
    // second finalize (whose own callback is not the one counted) below it
    serde_json::to_value(Case { threads_flavour: rng.chance(1, 2), src, tail: rng.below(5), trigs }).unwrap()
  }
  fn run(&self, case: &Value) -> Result<Outcome, String> {
    let case: Case = serde_json::from_value(case.clone()).map_err(|e| e.to_string())?;
    let w = World::new();
    let fin = Fin::new();
    let log = ProbeLog::new(false);
    let mut local = Subject::<'static, Val, E>::default();
    let mut shr = SubjectThreads::<Val, E>::default();
    let site = format!("{}{:?}", if case.threads_flavour { "finalize_threads/" } else { "finalize/" }, case.src).split('(').next().unwrap().to_string();
    if case.src == Src::HotShut {
      local.clone().unsubscribe();
      shr.clone().unsubscribe();
    }
    // build + subscribe
    let mut handle: Handle = if !case.threads_flavour {
      let src: rxrust::ops::box_it::BoxOp<'static, Val, E> = match &case.src {
        Src::Hot | Src::HotShut => local.clone().box_it(),
        Src::ColdSync(n) => observable::from_iter((0..*n as i64).map(Val::I)).on_error_map(|_| 0).box_it(),
        Src::ColdErr => observable::of_result::<Val, E>(Err(5)).box_it(),
        Src::IntervalTake(_) => observable::interval(std::time::Duration::from_millis(1), local_sched()).map(|i| Val::I(i as i64)).on_error_map(|_| 0).box_it(),
      };
      let take_n = if let Src::IntervalTake(n) = case.src { n } else { usize::MAX };
      let o = src.finalize(fin.callback()).take(take_n);
      let u: BoxSubscription<'static> = match case.tail {
        0 => BoxSubscription::new(o.actual_subscribe(Probe(log.clone()))),
        1 => BoxSubscription::new(o.map(|v| v).actual_subscribe(Probe(log.clone()))),
        3 => BoxSubscription::new(o.take(1).actual_subscribe(Probe(log.clone()))),
        4 => BoxSubscription::new(o.take(1).finalize(|| {}).actual_subscribe(Probe(log.clone()))),
        _ => BoxSubscription::new(o.filter(|_| true).tap(|_| {}).actual_subscribe(Probe(log.clone()))),
      };
      let u = std::rc::Rc::new(std::cell::RefCell::new(Some(u)));
      let u2 = u.clone();
      Handle::L(
        Some(Box::new(move || {
          if let Some(u) = u.borrow_mut().take() {
            u.unsubscribe()
          }
        })),
        std::rc::Rc::new(move || u2.borrow().as_ref().map_or(true, |u| u.is_closed())),
      )
    } else {
      let src: rxrust::ops::box_it::BoxOpThreads<Val, E> = match &case.src {
        Src::Hot | Src::HotShut => shr.clone().box_it(),
        Src::ColdSync(n) => observable::from_iter((0..*n as i64).map(Val::I)).on_error_map(|_| 0).box_it(),
        Src::ColdErr => observable::of_result::<Val, E>(Err(5)).box_it(),
        Src::IntervalTake(_) => observable::interval(std::time::Duration::from_millis(1), shared_sched()).map(|i| Val::I(i as i64)).on_error_map(|_| 0).box_it(),
      };
      let take_n = if let Src::IntervalTake(n) = case.src { n } else { usize::MAX };
      let o = src.finalize_threads(fin.callback()).take(take_n);
      let u: BoxSubscriptionThreads = match case.tail {
        0 => BoxSubscriptionThreads::new(o.actual_subscribe(Probe(log.clone()))),
        1 => BoxSubscriptionThreads::new(o.map(|v| v).actual_subscribe(Probe(log.clone()))),
        3 => BoxSubscriptionThreads::new(o.take(1).actual_subscribe(Probe(log.clone()))),
        4 => BoxSubscriptionThreads::new(o.take(1).finalize_threads(|| {}).actual_subscribe(Probe(log.clone()))),
        _ => BoxSubscriptionThreads::new(o.filter(|_| true).tap(|_| {}).actual_subscribe(Probe(log.clone()))),
      };
      let u = std::rc::Rc::new(std::cell::RefCell::new(Some(u)));
      let u2 = u.clone();
      Handle::L(
        Some(Box::new(move || {
          if let Some(u) = u.borrow_mut().take() {
            u.unsubscribe()
          }
        })),
        std::rc::Rc::new(move || u2.borrow().as_ref().map_or(true, |u| u.is_closed())),
      )
    };
    let mut triggered = matches!(case.src, Src::ColdSync(_) | Src::ColdErr);
    // finalize upstream of take: whether the downstream's completion alone runs the
    // finalizer is outside the statement's quantifier; only "at most once before,
    // exactly once after unsubscribe" is judged there
    // a hot source under a short-circuiting take: whether the downstream's completion
    // alone runs the finalizer is not judged either (0 or 1 runs before the first of
    // complete / error / unsubscribe on the source side)
    let lenient_before_unsub = matches!(case.src, Src::IntervalTake(_)) || (case.tail >= 3 && case.src == Src::Hot);
    let mut violation: Option<Violation> = None;
    let mut trace = format!("subscribe ");
    let mut repeats = 0u64;
    let mut n = 0i64;
    let mut check = |triggered: bool, trace: &str, violation: &mut Option<Violation>| {
      let c = fin.count.load(SeqCst);
      let want = triggered as usize;
      if lenient_before_unsub && !triggered && c <= 1 {
        return;
      }
      if c != want && violation.is_none() {
        *violation = Some(Violation {
          rule: if c > want { "c15.more-than-once" } else if triggered { "c15.not-run" } else { "c15.too-early" }.into(),
          site: site.clone(),
          detail: format!("after `{}` the finalizer ran {} time(s), expected {}", trace.trim(), c, want),
        });
      }
      // runs after the trigger's own downstream notification
      if c >= 1 && violation.is_none() {
        if let Some(t) = log.records().iter().find(|r| r.ev.is_terminal()) {
          let fs = fin.stamp.load(SeqCst);
          if fs != u64::MAX && fs < t.seq_out {
            *violation = Some(Violation {
              rule: "c15.before-notification".into(),
              site: site.clone(),
              detail: format!("`{}`: finalizer ran (stamp {}) before the terminal had been delivered downstream (stamps {}..{})", trace.trim(), fs, t.seq, t.seq_out),
            });
          }
        }
      }
    };
    check(triggered, &trace, &mut violation);
    for t in &case.trigs {
      match t {
        Trig::RunIdle => {
          w.quiesce(500, w.now() + 50 * MS);
          trace.push_str("run-idle ");
        }
        Trig::Next => {
          n += 1;
          if case.threads_flavour {
            shr.next(Val::I(n))
          } else {
            local.next(Val::I(n))
          }
          trace.push_str("next ");
        }
        Trig::Complete | Trig::Error => {
          if triggered {
            repeats += 1;
          }
          match (t, case.threads_flavour) {
            (Trig::Complete, false) => local.clone().complete(),
            (Trig::Complete, true) => shr.clone().complete(),
            (_, false) => local.clone().error(1),
            (_, true) => shr.clone().error(1),
          }
          // also below a take(1) that has already ended the stream: since fix 79cbe48
          // a subject hands its terminal to subscribers that report finished, so the
          // finalize stage is completed / failed by it like any other subscriber
          if matches!(case.src, Src::Hot) {
            triggered = true;
          }
          trace.push_str(if *t == Trig::Complete { "complete " } else { "error " });
        }
        Trig::Unsub | Trig::DropGuard => {
          let Handle::L(u, closed) = &mut handle;
          let closed = closed.clone();
          if let Some(u) = u.take() {
            if triggered {
              repeats += 1;
            }
            if *t == Trig::DropGuard {
              // same path as unsubscribe_when_dropped(): guard drop calls unsubscribe
              struct G(Option<Box<dyn FnOnce()>>, std::rc::Rc<dyn Fn() -> bool>);
              impl Subscription for G {
                fn unsubscribe(mut self) {
                  if let Some(f) = self.0.take() {
                    f()
                  }
                }
                fn is_closed(&self) -> bool {
                  (self.1)()
                }
              }
              let g = G(Some(u), closed).unsubscribe_when_dropped();
              drop(g);
            } else {
              u();
            }
            triggered = true;
            trace.push_str(if *t == Trig::Unsub { "unsubscribe " } else { "guard-drop " });
          }
        }
      }
      check(triggered, &trace, &mut violation);
    }
    let Handle::L(_, closed) = &handle;
    let _ = closed();
    let h = hash_mix(hash_str(&trace), fin.count.load(SeqCst) as u64);
    let evs = log.events();
    drop(handle);
    let sim_end = w.now();
    drop(w);
    Ok(Outcome {
      violation,
      trace_hash: h,
      nontrivial: repeats > 0 || case.trigs.len() >= 2,
      sim_ns: sim_end,
      steps: case.trigs.len() as u64,
      faults: vec![("repeated_trigger", repeats)],
      reach: vec![],
      resolved: None,
      sample: format!("{} {:?} tail={}: {} => finalizer x{} probe=[{}]", if case.threads_flavour { "finalize_threads" } else { "finalize" }, case.src, case.tail, trace.trim(), fin.count.load(SeqCst), fmt_trace(&evs)),
    })
  }
}

// ------------------------------------------------------------------ threads

#[derive(Clone, Debug, Serialize, Deserialize)]
pub struct TCase {
  items: usize,
  /// per thread: what it does (0 complete, 1 error, 2 unsubscribe)
  threads: Vec<u8>,
  sched: SchedSpec,
}

pub struct C15Threads;

impl Scenario for C15Threads {
  fn name(&self) -> &'static str {
    "c15.threads"
  }
  fn components(&self) -> (&'static [&'static str], &'static [&'static str]) {
    (&["FinalizeOpThreads over SubjectThreads (MutArc locks interleaved)"], &["OS thread scheduling (baton)"])
  }
  fn generate(&self, rng: &mut Rng, _tier: Tier) -> Value {
    let nt = rng.range(2, 3);
    let mut threads: Vec<u8> = (0..nt).map(|_| rng.below(3) as u8).collect();
    if !threads.contains(&2) && rng.chance(2, 3) {
      threads[nt - 1] = 2;
    }
    // only one unsubscriber (the subscription is not Clone)
    let mut seen = false;
    for t in threads.iter_mut() {
      if *t == 2 {
        if seen {
          *t = 0;
        }
        seen = true;
      }
    }
    let strategy = match rng.below(3) {
      0 => Strategy::Random,
      1 => Strategy::Seq { den: 3 },
      _ => Strategy::Pct { d: rng.range(1, 3) as u8, k: 30 },
    };
    serde_json::to_value(TCase { items: rng.below(2), threads, sched: SchedSpec::Seeded { seed: rng.next_u64(), strategy } }).unwrap()
  }
  fn run(&self, case: &Value) -> Result<Outcome, String> {
    let case: TCase = serde_json::from_value(case.clone()).map_err(|e| e.to_string())?;
    if case.threads.is_empty() || case.threads.len() > 4 || case.threads.iter().filter(|t| **t == 2).count() > 1 {
      return Err("bad shape".into());
    }
    let shr = Shared::new();
    let w = World::with_shared(shr.clone());
    let fin = Fin::new();
    let log = ProbeLog::new(true);
    let subject = SubjectThreads::<Val, E>::default();
    let u = subject.clone().finalize_threads(fin.callback()).actual_subscribe(Probe(log.clone()));
    let u = Arc::new(Mutex::new(Some(u)));
    let ts = TSim::new(shr.clone(), &case.sched, case.threads.len(), 0, 5_000);
    let mut bodies: Vec<Body> = Vec::new();
    for (i, t) in case.threads.iter().enumerate() {
      let mut s = subject.clone();
      let u = u.clone();
      let items = if i == 0 { case.items } else { 0 };
      let t = *t;
      bodies.push(Box::new(move || {
        for k in 0..items {
          s.next(Val::I(k as i64));
        }
        match t {
          0 => s.complete(),
          1 => s.error(4),
          _ => {
            let h = u.lock().unwrap().take();
            if let Some(h) = h {
              h.unsubscribe()
            }
          }
        }
      }));
    }
    let rep = ts.run(bodies);
    let c = fin.count.load(SeqCst);
    let site = "finalize_threads".to_string();
    let mut violation = None;
    if let Some(d) = &rep.deadlock {
      violation = Some(Violation { rule: "c15.deadlock".into(), site: site.clone(), detail: d.clone() });
    } else if rep.budget_overrun {
      violation = Some(Violation { rule: "c15.livelock".into(), site: site.clone(), detail: "step budget exhausted".into() });
    } else if let Some((t, m)) = rep.panics.first() {
      violation = Some(Violation { rule: "c15.panic".into(), site: site.clone(), detail: format!("thread {} panicked: {}", t, m) });
    } else if c != 1 {
      violation = Some(Violation {
        rule: if c > 1 { "c15.more-than-once" } else { "c15.not-run" }.into(),
        site: site.clone(),
        detail: format!("threads {:?} (0 complete, 1 error, 2 unsubscribe) all returned; finalizer ran {} times", case.threads, c),
      });
    } else if let Some(r) = log.records().iter().find(|r| r.seq > fin.entry.load(SeqCst)) {
      // "right after the first of those events, never before it": once the
      // callback has started, the subscription must be over for the subscriber
      violation = Some(Violation {
        rule: "c15.notification-after-finalizer".into(),
        site: site.clone(),
        detail: format!("threads {:?} (0 complete, 1 error, 2 unsubscribe): {} reached the subscriber (stamp {}) after the finalizer had started (stamp {})", case.threads, fmt_ev(&r.ev), r.seq, fin.entry.load(SeqCst)),
      });
    }
    if violation.is_none() {
      // ... and it must not start while the terminal is still being handed to
      // the subscriber on another thread
      let f = fin.entry.load(SeqCst);
      if let Some(r) = log.records().iter().find(|r| r.ev.is_terminal() && r.seq < f && f < r.seq_out) {
        violation = Some(Violation {
          rule: "c15.finalizer-during-terminal-delivery".into(),
          site: site.clone(),
          detail: format!("threads {:?} (0 complete, 1 error, 2 unsubscribe): the finalizer started (stamp {}) while {} was still being delivered to the subscriber on thread {} (stamps {}..{})", case.threads, f, fmt_ev(&r.ev), r.tid, r.seq, r.seq_out),
        });
      }
    }
    let mut resolved = case.clone();
    resolved.sched = SchedSpec::Explicit(rep.decisions.clone());
    let evs = log.events();
    drop(u);
    drop(subject);
    drop(w);
    Ok(Outcome {
      violation,
      trace_hash: hash_mix(rep.trace_hash, c as u64),
      nontrivial: rep.multi_choice > 0,
      sim_ns: 0,
      steps: rep.steps,
      faults: vec![("preemption", rep.preemptions), ("lock_contention", rep.contentions)],
      reach: vec![("try_lock_contention_observed", (rep.contentions > 0) as u64)],
      resolved: Some(serde_json::to_value(resolved).unwrap()),
      sample: format!("threads={:?} items={} decisions={} => finalizer x{} probe=[{}]", case.threads, case.items, rep.decisions.len(), c, fmt_trace(&evs)),
    })
  }
}

pub fn check_def() -> PropertyCheck {
  PropertyCheck {
    id: "C15",
    scenarios: vec![Box::new(C15Des), Box::new(C15Threads), Box::new(C15Clones)],
    runs: (250_000, 12_000_000),
    rule: "DES case = finalize | finalize_threads over a hot subject / cold sync source / failing source, optional pass-through tail, then <=7 triggers (next, complete, error through cloned handles, unsubscribe, guard drop) in any order; thread case = 2-3 threads each issuing complete / error / unsubscribe concurrently on finalize_threads; non-trivial = >=2 triggers or a repeated trigger (DES) / a decision with >1 eligible thread (threads)",
    assumptions: vec!["sequentially consistent execution"],
  }
}

// ------------------------------------------------------- clones of one finalize

#[derive(Clone, Debug, Serialize, Deserialize)]
pub struct CCase {
  threads_flavour: bool,
  subscriptions: usize,
  /// 0 complete, 1 error, 2+i unsubscribe subscription i (modulo)
  trigs: Vec<u8>,
}

pub struct C15Clones;

impl Scenario for C15Clones {
  fn name(&self) -> &'static str {
    "c15.clones"
  }
  fn components(&self) -> (&'static [&'static str], &'static [&'static str]) {
    (&["FinalizeOp / FinalizeOpThreads cloned and subscribed several times (per-subscription callback cell)"], &[])
  }
  fn generate(&self, rng: &mut Rng, _tier: Tier) -> Value {
    let k = rng.range(2, 3);
    let trigs = (0..rng.range(1, 5)).map(|_| rng.below(2 + k) as u8).collect();
    serde_json::to_value(CCase { threads_flavour: rng.chance(1, 2), subscriptions: k, trigs }).unwrap()
  }
  fn run(&self, case: &Value) -> Result<Outcome, String> {
    let case: CCase = serde_json::from_value(case.clone()).map_err(|e| e.to_string())?;
    if case.subscriptions == 0 || case.subscriptions > 4 || case.trigs.len() > 12 {
      return Err("bad shape".into());
    }
    let w = World::new();
    let fin = Fin::new();
    let local = Subject::<'static, Val, E>::default();
    let shr = SubjectThreads::<Val, E>::default();
    let k = case.subscriptions;
    let mut handles: Vec<Option<Box<dyn crate::props::c06::SubHandle>>> = Vec::new();
    let mut logs = Vec::new();
    if case.threads_flavour {
      let op = shr.clone().finalize_threads(fin.callback());
      for _ in 0..k {
        let l = ProbeLog::new(false);
        handles.push(Some(Box::new(op.clone().actual_subscribe(Probe(l.clone())))));
        logs.push(l);
      }
    } else {
      let op = local.clone().finalize(fin.callback());
      for _ in 0..k {
        let l = ProbeLog::new(false);
        handles.push(Some(Box::new(op.clone().actual_subscribe(Probe(l.clone())))));
        logs.push(l);
      }
    }
    let site = if case.threads_flavour { "finalize_threads/clones" } else { "finalize/clones" }.to_string();
    let mut triggered = vec![false; k];
    let mut violation = None;
    let mut trace = format!("subscribe x{} ", k);
    for t in &case.trigs {
      match *t {
        0 | 1 => {
          match (*t, case.threads_flavour) {
            (0, false) => local.clone().complete(),
            (0, true) => shr.clone().complete(),
            (_, false) => local.clone().error(1),
            (_, true) => shr.clone().error(1),
          }
          for x in triggered.iter_mut() {
            *x = true;
          }
          trace.push_str(if *t == 0 { "complete " } else { "error " });
        }
        i => {
          let i = (i as usize - 2) % k;
          if let Some(h) = handles[i].take() {
            h.unsub();
            triggered[i] = true;
            trace.push_str(&format!("unsub{} ", i));
          }
        }
      }
      let want = triggered.iter().filter(|x| **x).count();
      let got = fin.count.load(SeqCst);
      if got != want {
        violation = Some(Violation {
          rule: if got > want { "c15.more-than-once" } else { "c15.not-run" }.into(),
          site: site.clone(),
          detail: format!("`{}`: {} of the {} subscriptions have been completed / failed / unsubscribed, the finalizer ran {} time(s)", trace.trim(), want, k, got),
        });
        break;
      }
    }
    let h = hash_mix(hash_str(&trace), fin.count.load(SeqCst) as u64);
    handles.clear();
    let sim_end = w.now();
    drop(w);
    Ok(Outcome {
      violation,
      trace_hash: h,
      nontrivial: true,
      sim_ns: sim_end,
      steps: case.trigs.len() as u64,
      faults: vec![],
      reach: vec![],
      resolved: None,
      sample: format!("{}: {} => finalizer x{}", site, trace.trim(), fin.count.load(SeqCst)),
    })
  }
}
