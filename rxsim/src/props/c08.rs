//! C08 — time and async sources emit exactly what and when they promise:
//! interval(_at), timer(_at), from_future(_result), from_stream(_result) on the
//! simulated executor and virtual clock.

use crate::framework::*;
use crate::probe::*;
use crate::rng::Rng;
use crate::world::*;
use futures::Stream;
use rxrust::prelude::*;
use serde::{Deserialize, Serialize};
use serde_json::Value;
use std::future::Future;
use std::pin::Pin;
use std::sync::atomic::Ordering::SeqCst;
use std::sync::{Arc, Mutex};
use std::task::{Context, Poll, Waker};
use std::time::Duration;

/// one step of a scripted future / stream
#[derive(Clone, Debug, Serialize, Deserialize, PartialEq)]
pub enum Gate {
  /// ready at once
  Ready,
  /// pending `k` polls, waking itself each time
  SelfWake(u8),
  /// pending until the script releases it (`Act::Release`), then woken
  External,
}

#[derive(Clone, Debug, Serialize, Deserialize, PartialEq)]
pub enum Src {
  Interval { p: u32, take: usize },
  /// instant = construction time + off_ms (negative = in the past)
  IntervalAt { off: i32, p: u32, take: usize },
  /// d in units of 100 microseconds
  Timer { d: u32 },
  TimerAt { off: i32 },
  /// timer / timer_at due `far_base(base)` + extra_ms after subscription /
  /// construction (2^32 us, 2^32 ms, 2^32 s, 2^64 ns: where a truncating
  /// conversion would wrap; the last one is never due in any run)
  TimerFar { base: u8, extra_ms: u32, at: bool },
  Future { gate: Gate },
  FutureResult { gate: Gate, err: bool },
  Stream { gates: Vec<Gate> },
  StreamResult { gates: Vec<Gate>, err_at: Option<usize> },
}

#[derive(Clone, Debug, Serialize, Deserialize, PartialEq)]
pub enum Act {
  Run(u16),
  Advance(u32),
  AdvanceNext,
  Release,
  SpuriousPoll(u16),
}

#[derive(Clone, Debug, Serialize, Deserialize)]
pub struct Case {
  src: Src,
  shared_sched: bool,
  /// virtual ms between building the observable and subscribing to it
  sub_after: u32,
  /// executor runs as timers fall due (then exact times are required)
  prompt: bool,
  acts: Vec<Act>,
  /// prompt arm: the executor runs for the first time only half-way to the
  /// first due time (still before anything falls due), promptly from then on
  #[serde(default)]
  late_start: bool,
  /// fault (interval sources on the prompt executor): every subscriber callback
  /// takes this long (units of 100 us, less than the period), so the executor
  /// is idle again well before the next tick falls due
  #[serde(default)]
  busy_100us: u32,
  /// k > 0: only the k-th callback is slow, and it may then take longer than
  /// one or several periods; only the lower bound between consecutive ticks
  /// is judged in such a run (the executor is not idle when ticks fall due)
  #[serde(default)]
  busy_only_at: u8,
}

#[derive(Default)]
struct GateState {
  released: usize,
  waker: Option<Waker>,
}
type Gates = Arc<Mutex<GateState>>;

struct ScriptStream {
  gates: Vec<Gate>,
  pos: usize,
  selfwake_left: Option<u8>,
  ext_seen: usize,
  err_at: Option<usize>,
  st: Gates,
}

impl ScriptStream {
  /// Poll::Ready(true) when step `pos` may be yielded
  fn gate(&mut self, cx: &mut Context<'_>) -> Poll<()> {
    match self.gates[self.pos].clone() {
      Gate::Ready => Poll::Ready(()),
      Gate::SelfWake(k) => {
        let left = self.selfwake_left.get_or_insert(k);
        if *left == 0 {
          self.selfwake_left = None;
          Poll::Ready(())
        } else {
          *left -= 1;
          cx.waker().wake_by_ref();
          Poll::Pending
        }
      }
      Gate::External => {
        let mut st = self.st.lock().unwrap();
        if st.released > self.ext_seen {
          self.ext_seen += 1;
          Poll::Ready(())
        } else {
          st.waker = Some(cx.waker().clone());
          Poll::Pending
        }
      }
    }
  }
}

impl Stream for ScriptStream {
  type Item = Result<Val, E>;
  fn poll_next(mut self: Pin<&mut Self>, cx: &mut Context<'_>) -> Poll<Option<Self::Item>> {
    if self.pos >= self.gates.len() {
      return Poll::Ready(None);
    }
    match self.gate(cx) {
      Poll::Pending => Poll::Pending,
      Poll::Ready(()) => {
        let i = self.pos;
        self.pos += 1;
        if self.err_at == Some(i) {
          self.pos = self.gates.len();
          Poll::Ready(Some(Err(4)))
        } else {
          Poll::Ready(Some(Ok(Val::I(i as i64))))
        }
      }
    }
  }
}

struct OkStream(ScriptStream);
impl Stream for OkStream {
  type Item = Val;
  fn poll_next(mut self: Pin<&mut Self>, cx: &mut Context<'_>) -> Poll<Option<Val>> {
    match Pin::new(&mut self.0).poll_next(cx) {
      Poll::Ready(Some(Ok(v))) => Poll::Ready(Some(v)),
      Poll::Ready(Some(Err(_))) => Poll::Ready(None),
      Poll::Ready(None) => Poll::Ready(None),
      Poll::Pending => Poll::Pending,
    }
  }
}

struct ScriptFut(ScriptStream);
impl Future for ScriptFut {
  type Output = Result<Val, E>;
  fn poll(mut self: Pin<&mut Self>, cx: &mut Context<'_>) -> Poll<Self::Output> {
    match Pin::new(&mut self.0).poll_next(cx) {
      Poll::Ready(Some(r)) => Poll::Ready(r),
      Poll::Ready(None) => panic!("harness: scripted future polled after completion"),
      Poll::Pending => Poll::Pending,
    }
  }
}
struct OkFut(ScriptFut);
impl Future for OkFut {
  type Output = Val;
  fn poll(mut self: Pin<&mut Self>, cx: &mut Context<'_>) -> Poll<Val> {
    match Pin::new(&mut self.0).poll(cx) {
      Poll::Ready(r) => Poll::Ready(r.unwrap_or(Val::I(-1))),
      Poll::Pending => Poll::Pending,
    }
  }
}

pub struct C08;

impl Scenario for C08 {
  fn name(&self) -> &'static str {
    "c08.des"
  }
  fn components(&self) -> (&'static [&'static str], &'static [&'static str]) {
    (
      &["observable/interval.rs", "observable/timer.rs", "observable/from_future.rs", "observable/from_stream.rs", "observable/from_stream_result.rs", "scheduler.rs (schedule, RepeatTask, OnceTask, FutureTask, Remote)"],
      &["executor, timer, wall clock (sim)", "the futures/streams being relayed are scripted by the harness"],
    )
  }
  fn generate(&self, rng: &mut Rng, _tier: Tier) -> Value {
    let gate = |rng: &mut Rng| match rng.below(3) {
      0 => Gate::Ready,
      1 => Gate::SelfWake(rng.range(1, 3) as u8),
      _ => Gate::External,
    };
    let p = *rng.pick(&[1u32, 3, 10, 10, 1000, 1500, 0]);
    let src = match rng.below(10) {
      0 | 1 => Src::Interval { p, take: rng.range(1, 6) },
      2 | 3 => Src::IntervalAt { off: *rng.pick(&[-5, 0, 1, 2, 5, 12, 30, 30, 1000, 2500]), p, take: rng.range(1, 5) },
      4 => Src::Timer { d: *rng.pick(&[0, 3, 10, 30, 100, 100, 1000, 1200]) },
      5 if rng.chance(1, 6) => Src::TimerFar { base: rng.range(1, 4) as u8, extra_ms: *rng.pick(&[0u32, 0, 1, 40, 1000]), at: rng.chance(1, 2) },
      5 => Src::TimerAt { off: *rng.pick(&[-5, 0, 1, 3, 10, 10, 1000, 2001]) },
      6 => Src::Future { gate: gate(rng) },
      7 => Src::FutureResult { gate: gate(rng), err: rng.chance(1, 2) },
      // one stream in eight is long and mostly ready at once (a burst)
      8 => Src::Stream { gates: if rng.chance(1, 8) { (0..rng.range(20, 80)).map(|_| if rng.chance(1, 25) { gate(rng) } else { Gate::Ready }).collect() } else { (0..rng.below(6)).map(|_| gate(rng)).collect() } },
      _ if rng.chance(1, 8) => {
        let n = rng.range(20, 80);
        Src::StreamResult { gates: (0..n).map(|_| if rng.chance(1, 25) { gate(rng) } else { Gate::Ready }).collect(), err_at: if rng.chance(1, 2) { Some(rng.range(n / 2, n - 1)) } else { None } }
      }
      _ => {
        let n = rng.below(6);
        Src::StreamResult { gates: (0..n).map(|_| gate(rng)).collect(), err_at: if n > 0 && rng.chance(1, 2) { Some(rng.below(n)) } else { None } }
      }
    };
    let mut acts = Vec::new();
    for _ in 0..rng.range(3, 25) {
      acts.push(match rng.weighted(&[8, 3, 5, 4, 2]) {
        0 => Act::Run(rng.below(4) as u16),
        1 => Act::Advance(*rng.pick(&[1u32, 2, 7, 25, 25, 1000])),
        2 => Act::AdvanceNext,
        3 => Act::Release,
        _ => Act::SpuriousPoll(rng.below(4) as u16),
      });
    }
    let prompt = rng.chance(1, 2);
    let mut busy_only_at = 0u8;
    let busy_100us = match &src {
      Src::Interval { p, take } | Src::IntervalAt { p, take, .. } if prompt && *p > 0 && rng.chance(1, 12) => {
        // one slow delivery, up to a few periods long
        busy_only_at = rng.range(1, *take) as u8;
        *p * *rng.pick(&[5u32, 10, 15, 23, 40])
      }
      Src::Interval { p, .. } | Src::IntervalAt { p, .. } if prompt && *p > 0 && rng.chance(1, 6) => (*rng.pick(&[1u32, 5, 20, 2000])).min(*p * 10 - 1),
      _ => 0,
    };
    serde_json::to_value(Case { src, shared_sched: rng.chance(1, 2), sub_after: *rng.pick(&[0u32, 0, 0, 2]), prompt, acts, late_start: rng.chance(1, 3), busy_100us, busy_only_at }).unwrap()
  }

  fn run(&self, case: &Value) -> Result<Outcome, String> {
    let case: Case = serde_json::from_value(case.clone()).map_err(|e| e.to_string())?;
    match &case.src {
      Src::Interval { take, .. } | Src::IntervalAt { take, .. } if *take == 0 || *take > 20 => return Err("bad interval".into()),
      Src::Stream { gates } | Src::StreamResult { gates, .. } if gates.len() > 100 => return Err("bad stream".into()),
      Src::StreamResult { gates, err_at: Some(e) } if *e >= gates.len() => return Err("error position beyond the stream".into()),
      _ => {}
    }
    if case.busy_100us > 0 {
      let ok = case.prompt && matches!(&case.src, Src::Interval { p, .. } | Src::IntervalAt { p, .. } if (case.busy_only_at > 0 && case.busy_100us <= *p * 100) || case.busy_100us < *p * 10);
      if !ok {
        return Err("a busy subscriber is only judged for interval sources on the prompt executor, and for less than a period".into());
      }
    }
    let w = World::new();
    let log = ProbeLog::new(false);
    log.busy_ns.store(case.busy_100us as u64 * MS / 10, SeqCst);
    log.busy_only_at.store(case.busy_only_at as usize, SeqCst);
    let p = Probe(log.clone());
    let gates: Gates = Arc::new(Mutex::new(GateState::default()));
    let mk_stream = |g: Vec<Gate>, err_at: Option<usize>| ScriptStream { gates: g, pos: 0, selfwake_left: None, ext_seen: 0, err_at, st: gates.clone() };
    let t_build = w.now();
    let at_of = |off: i32| -> (std::time::Instant, i64) {
      let t = t_build as i64 + off as i64 * MS as i64;
      // instants before the virtual epoch are representable too (base is 1h after process start)
      let inst = if t >= 0 { instant_at(t as u64) } else { base_instant() - Duration::from_nanos((-t) as u64) };
      (inst, t)
    };
    macro_rules! build {
      ($sched:expr) => {{
        let sched = $sched;
        let sub_after = case.sub_after as u64 * MS;
        let b: Box<dyn FnOnce() -> Box<dyn std::any::Any>> = match case.src.clone() {
          Src::Interval { p: per, take } => {
            let o = observable::interval(Duration::from_millis(per as u64), sched).take(take);
            Box::new(move || Box::new(o.actual_subscribe(p)))
          }
          Src::IntervalAt { off, p: per, take } => {
            let o = observable::interval_at(at_of(off).0, Duration::from_millis(per as u64), sched).take(take);
            Box::new(move || Box::new(o.actual_subscribe(p)))
          }
          Src::Timer { d } => {
            let o = observable::timer(Val::I(7), Duration::from_micros(d as u64 * 100), sched);
            Box::new(move || Box::new(o.actual_subscribe(p)))
          }
          Src::TimerAt { off } => {
            let o = observable::timer_at(Val::I(7), at_of(off).0, sched);
            Box::new(move || Box::new(o.actual_subscribe(p)))
          }
          Src::TimerFar { base, extra_ms, at } => {
            let far = far_base(base) + Duration::from_millis(extra_ms as u64);
            if at {
              let o = observable::timer_at(Val::I(7), at_of(0).0 + far, sched);
              Box::new(move || Box::new(o.actual_subscribe(p)))
            } else {
              let o = observable::timer(Val::I(7), far, sched);
              Box::new(move || Box::new(o.actual_subscribe(p)))
            }
          }
          Src::Future { gate } => {
            let o = observable::from_future(OkFut(ScriptFut(mk_stream(vec![gate], None))), sched);
            Box::new(move || Box::new(o.actual_subscribe(p)))
          }
          Src::FutureResult { gate, err } => {
            let o = observable::from_future_result(ScriptFut(mk_stream(vec![gate], if err { Some(0) } else { None })), sched);
            Box::new(move || Box::new(o.actual_subscribe(p)))
          }
          Src::Stream { gates: g } => {
            let o = observable::from_stream(OkStream(mk_stream(g, None)), sched);
            Box::new(move || Box::new(o.actual_subscribe(p)))
          }
          Src::StreamResult { gates: g, err_at } => {
            let o = observable::from_stream_result(mk_stream(g, err_at), sched);
            Box::new(move || Box::new(o.actual_subscribe(p)))
          }
        };
        w.advance_by(sub_after);
        b()
      }};
    }
    let _sub: Box<dyn std::any::Any> = if case.shared_sched { build!(shared_sched()) } else { build!(local_sched()) };
    let t_sub = w.now();
    let mut trace = String::new();
    let mut spurious = 0u64;
    let mut overshoots = 0u64;
    let period_ns = match &case.src {
      Src::Interval { p, .. } | Src::IntervalAt { p, .. } => *p as u64 * MS,
      _ => 0,
    };
    let release = |gates: &Gates| {
      let wk = {
        let mut g = gates.lock().unwrap();
        g.released += 1;
        g.waker.take()
      };
      if let Some(wk) = wk {
        wk.wake();
      }
    };
    if case.prompt {
      if case.late_start {
        let first_due = match &case.src {
          Src::Interval { p, .. } => t_sub + *p as u64 * MS,
          Src::IntervalAt { off, .. } => (at_of(*off).1.max(t_sub as i64)) as u64,
          Src::Timer { d } => t_sub + *d as u64 * MS / 10,
          Src::TimerAt { off } => (at_of(*off).1.max(t_sub as i64)) as u64,
          _ => t_sub,
        };
        if first_due > t_sub {
          w.advance_by((first_due - t_sub) / 2);
          trace.push_str("late-start ");
        }
      }
      // the executor runs as timers fall due: FIFO to idle, jump exactly to the
      // next deadline, repeat; external gates are released whenever it stalls
      let mut rounds = 0;
      loop {
        w.run_ready_fifo(1000);
        if log.terminated() || rounds > 200 {
          break;
        }
        rounds += 1;
        if !w.advance_next() {
          release(&gates);
          if w.ready_count() == 0 {
            break;
          }
        }
      }
      w.quiesce(2000, w.now().saturating_add(3_600_000 * MS));
      trace.push_str("prompt ");
    } else {
      for a in &case.acts {
        match a {
          Act::Run(c) => {
            if w.run_task(*c as usize) {
              trace.push('r');
            }
          }
          Act::Advance(ms) => {
            if let Some(d) = w.shared.next_deadline() {
              if w.now() + *ms as u64 * MS >= d + period_ns.max(MS) {
                overshoots += 1;
              }
            }
            w.advance_by(*ms as u64 * MS);
            trace.push_str(&format!("+{} ", ms));
          }
          Act::AdvanceNext => {
            if w.advance_next() {
              trace.push_str("→ ");
            }
          }
          Act::Release => {
            release(&gates);
            trace.push_str("rel ");
          }
          Act::SpuriousPoll(c) => {
            if w.ready_count() == 0 && w.poll_any(*c as usize) {
              spurious += 1;
              trace.push('s');
            }
          }
        }
      }
      // quiescence: faults stop; everything that is pending gets released and run
      for _ in 0..40 {
        w.quiesce(2000, w.now().saturating_add(3_600_000 * MS));
        if log.terminated() {
          break;
        }
        release(&gates);
        if w.ready_count() == 0 && w.live_timers() == 0 {
          break;
        }
      }
    }
    // ---- oracle
    let recs = log.records();
    let evs: Vec<Ev> = recs.iter().map(|r| r.ev.clone()).collect();
    let site = format!("{}{}", format!("{:?}", case.src).split(|c: char| !c.is_alphanumeric()).next().unwrap(), if case.busy_only_at > 0 { " one-slow-delivery" } else if case.busy_100us > 0 { " busy-subscriber" } else { "" });
    let mut violation: Option<Violation> = None;
    let mut bad = |rule: &str, detail: String| {
      if violation.is_none() {
        violation = Some(Violation { rule: rule.into(), site: site.clone(), detail });
      }
    };
    let times: Vec<u64> = recs.iter().filter(|r| matches!(r.ev, Ev::Next(_))).map(|r| r.t).collect();
    if let Some(i) = grammar_violation(&evs) {
      bad("c08.grammar", format!("event #{} after terminal: [{}]", i, fmt_trace(&evs)));
    }
    match &case.src {
      Src::Interval { p, take } | Src::IntervalAt { p, take, .. } => {
        let per = *p as u64 * MS;
        let mut want: Vec<Ev> = (0..*take).map(|i| Ev::Next(Val::I(i as i64))).collect();
        want.push(Ev::Complete);
        if evs != want {
          bad("c08.values", format!("interval delivered [{}], expected 0..{} then Complete", fmt_trace(&evs), take));
        }
        let (first_min, exact_first): (u64, Option<u64>) = match &case.src {
          Src::Interval { .. } => (t_sub + per, Some(t_sub + per)),
          Src::IntervalAt { off, .. } => {
            let at = at_of(*off).1;
            if at >= t_sub as i64 {
              (at as u64, Some(at as u64))
            } else {
              // the instant has passed already: the tick is overdue, so an executor
              // that runs as timers fall due delivers it at once
              (t_sub, Some(t_sub))
            }
          }
          _ => unreachable!(),
        };
        for (k, t) in times.iter().enumerate() {
          let min = if k == 0 { first_min } else { times[k - 1] + per };
          if *t < min {
            bad("c08.early", format!("tick {} at {}ms, not before {}ms allowed (sub at {}ms, period {}ms)", k, *t as f64 / 1e6, min as f64 / 1e6, t_sub / MS, p));
          }
          if case.prompt && case.busy_only_at == 0 {
            let exact = if k == 0 { exact_first } else { Some(times[k - 1] + per) };
            if let Some(x) = exact {
              if *t != x {
                bad("c08.late-under-prompt-executor", format!("executor ran as timers fell due, yet tick {} came at {}ms instead of {}ms (built at {}ms, subscribed at {}ms, period {}ms{})", k, *t as f64 / 1e6, x as f64 / 1e6, t_build / MS, t_sub / MS, p, match &case.src { Src::IntervalAt { off, .. } => format!(", instant = build{:+}ms", off), _ => String::new() }));
              }
            }
          }
        }
      }
      Src::Timer { .. } | Src::TimerAt { .. } => {
        if evs != vec![Ev::Next(Val::I(7)), Ev::Complete] {
          bad("c08.values", format!("timer delivered [{}]", fmt_trace(&evs)));
        }
        // only a lower bound is promised for timers: never before the due time
        // (timer: subscription + d; timer_at: the instant)
        let due_min = match &case.src {
          Src::Timer { d } => t_sub + *d as u64 * MS / 10,
          Src::TimerAt { off } => at_of(*off).1.max(t_sub as i64) as u64,
          _ => unreachable!(),
        };
        if let Some(t) = times.first() {
          if *t < due_min {
            bad("c08.early", format!("timer fired at {}ms, due {}ms", *t as f64 / 1e6, due_min as f64 / 1e6));
          }
        }
      }
      Src::TimerFar { base, extra_ms, at } => {
        let far = sim_ns(far_base(*base) + Duration::from_millis(*extra_ms as u64));
        let due = (if *at { t_build } else { t_sub }).checked_add(far).unwrap_or(NEVER);
        if let Some(r) = recs.first() {
          if r.t < due {
            bad("c08.early", format!("a timer due {}ms (2^{} + {}ms) after its {} delivered [{}], the first at {}ms", far as f64 / 1e6, ["", "32 us", "32 ms", "32 s", "64 ns"][(*base).min(4) as usize], extra_ms, if *at { "construction" } else { "subscription" }, fmt_trace(&evs), r.t as f64 / 1e6));
          }
        }
        if !evs.is_empty() && evs != vec![Ev::Next(Val::I(7)), Ev::Complete] {
          bad("c08.values", format!("timer delivered [{}]", fmt_trace(&evs)));
        }
      }
      Src::Future { .. } => {
        if evs != vec![Ev::Next(Val::I(0)), Ev::Complete] {
          bad("c08.values", format!("from_future delivered [{}]", fmt_trace(&evs)));
        }
      }
      Src::FutureResult { err, .. } => {
        let want = if *err { vec![Ev::Err(4)] } else { vec![Ev::Next(Val::I(0)), Ev::Complete] };
        if evs != want {
          bad("c08.values", format!("from_future_result delivered [{}], expected [{}]", fmt_trace(&evs), fmt_trace(&want)));
        }
      }
      Src::Stream { gates } => {
        let mut want: Vec<Ev> = (0..gates.len()).map(|i| Ev::Next(Val::I(i as i64))).collect();
        want.push(Ev::Complete);
        if evs != want {
          bad("c08.values", format!("from_stream delivered [{}], expected [{}]", fmt_trace(&evs), fmt_trace(&want)));
        }
      }
      Src::StreamResult { gates, err_at } => {
        let n = err_at.unwrap_or(gates.len());
        let mut want: Vec<Ev> = (0..n).map(|i| Ev::Next(Val::I(i as i64))).collect();
        want.push(if err_at.is_some() { Ev::Err(4) } else { Ev::Complete });
        if evs != want {
          bad("c08.values", format!("from_stream_result delivered [{}], expected [{}]", fmt_trace(&evs), fmt_trace(&want)));
        }
      }
    }
    // a task that outlives its source's terminal is C16's / C19's business, not
    // part of "emits exactly what and when it promises": counted, not judged
    let task_left = (w.live_tasks() > 0) as u64;
    let st = &w.shared.stats;
    let multi = st.multi_ready_decisions.load(SeqCst);
    let jumps = st.clock_jumps_over_2.load(SeqCst);
    let mut h = hash_str(&trace);
    for r in &recs {
      h = hash_mix(h, hash_str(&fmt_ev(&r.ev)) ^ r.t);
    }
    let sample = format!(
      "{:?} sched={} sub_after={}ms {} {} => {}",
      case.src,
      if case.shared_sched { "shared" } else { "local" },
      case.sub_after,
      if case.prompt { "prompt" } else { "scripted" },
      trace.trim(),
      recs.iter().map(|r| format!("{}@{}ms", fmt_ev(&r.ev), r.t as f64 / 1e6)).collect::<Vec<_>>().join(" ")
    );
    let sim = w.now();
    drop(_sub);
    drop(w);
    Ok(Outcome {
      violation,
      trace_hash: h,
      nontrivial: spurious > 0 || overshoots > 0 || jumps > 0 || multi > 0 || !case.prompt,
      sim_ns: sim,
      steps: case.acts.len() as u64,
      faults: vec![("spurious_poll", spurious), ("clock_jump_past_a_deadline_by_a_period_or_more", overshoots), ("late_executor(scripted clock)", (!case.prompt) as u64), ("busy_subscriber(every callback takes time)", (case.busy_100us > 0 && case.busy_only_at == 0) as u64), ("one_slow_delivery(longer than a period)", (case.busy_only_at > 0) as u64), ("far_ahead_timer(2^32 us/ms/s, 2^64 ns)", matches!(case.src, Src::TimerFar { .. }) as u64)],
      reach: vec![("info:task_alive_after_source_terminated", task_left)],
      resolved: None,
      sample,
    })
  }
}

pub fn check_def() -> PropertyCheck {
  PropertyCheck {
    id: "C08",
    scenarios: vec![Box::new(C08)],
    runs: (300_000, 30_000_000),
    rule: "case = source (interval, interval_at, timer, timer_at with periods/delays {0,1,3,10}ms and instants before/at/after now, and timers due 2^32 us / 2^32 ms / 2^32 s / 2^64 ns ahead (where a truncating conversion would wrap); from_future(_result), from_stream(_result) over scripted futures/streams: ready, pending-k-polls, pending-until-released, error at i) x local|shared scheduler x either a prompt executor (exact-time oracle) or a script of run-task-#k / advance / jump / release / spurious-poll (lower-bound oracle) followed by quiescence; non-trivial = scripted clock or spurious poll or a jump over >=2 deadlines",
    assumptions: vec!["timer model: deadline fixed at creation, never early (as futures-time/async-io)"],
  }
}
