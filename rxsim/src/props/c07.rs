//! C07 — scheduler-moving operators (observe_on, delay, delay_at,
//! delay_subscription(_at), subscribe_on; local and _threads) preserve the
//! source's sequence and never deliver earlier than the configured delay, for
//! every order in which the scheduler runs its ready tasks.

use crate::framework::*;
use crate::probe::*;
use crate::rng::Rng;
use crate::world::*;
use rxrust::prelude::*;
use serde::{Deserialize, Serialize};
use serde_json::Value;
use std::sync::atomic::Ordering::SeqCst;
use std::time::Duration;

#[derive(Clone, Debug, Serialize, Deserialize, PartialEq)]
pub enum MOp {
  ObserveOn,
  /// delay in units of 100 microseconds (sub-millisecond delays are legal)
  Delay(u32),
  /// instant = build time + off ms
  DelayAt(i32),
  DelaySubscription(u32),
  DelaySubscriptionAt(i32),
  SubscribeOn,
}

#[derive(Clone, Debug, Serialize, Deserialize, PartialEq)]
pub enum Policy {
  /// single FIFO queue (the LocalPool model)
  Fifo,
  /// any ready task may run next (sequential abstraction of a k-worker pool)
  AnyReady,
}

#[derive(Clone, Debug, Serialize, Deserialize, PartialEq)]
pub enum Act {
  Emit,
  Complete,
  Error,
  Run(u16),
  Advance(u32),
  AdvanceNext,
}

#[derive(Clone, Debug, Serialize, Deserialize)]
pub struct Case {
  op: MOp,
  threads_flavour: bool,
  /// cold source of n items (all at subscription) instead of the hot one
  cold: Option<usize>,
  policy: Policy,
  acts: Vec<Act>,
  /// k > 0: the delay (or the distance of the instant) is `far_base(k)` longer:
  /// 2^32 us, 2^32 ms, 2^32 s, 2^64 ns - where a truncating conversion would
  /// wrap; the last one is never due in any run
  #[serde(default)]
  far: u8,
  /// fault: time (in units of 100 us) that passes inside the k-th timer
  /// creation, i.e. between the moment a scheduled task computes its deadline
  /// and its first look at the clock - the real clock never stands still there
  #[serde(default)]
  creep: Vec<u32>,
}

pub struct C07;

impl Scenario for C07 {
  fn name(&self) -> &'static str {
    "c07.des"
  }
  fn weight(&self) -> usize {
    6
  }
  fn components(&self) -> (&'static [&'static str], &'static [&'static str]) {
    (
      &["ops/observe_on.rs", "ops/delay.rs (DelayOp, DelayOpThreads, DelaySubscriptionOp)", "ops/subscribe_on.rs", "observable.rs (_at constructors)", "scheduler.rs (schedule, OnceTask, Remote, TaskHandle)", "MultiSubscription(Threads)"],
      &["executor with FIFO / any-ready-task policy (sim)", "timer, wall clock (sim)"],
    )
  }
  fn generate(&self, rng: &mut Rng, tier: Tier) -> Value {
    let op = match rng.below(8) {
      0 | 1 => MOp::ObserveOn,
      2 | 3 => MOp::Delay(*rng.pick(&[0u32, 3, 10, 50, 200, 200, 12_000, 20_005])),
      4 => MOp::DelayAt(*rng.pick(&[-5i32, 0, 1, 5, 20, 20, 1000, 1200, 2001])),
      5 => MOp::DelaySubscription(*rng.pick(&[0u32, 3, 10, 50, 200, 200, 12_000, 20_005])),
      6 => MOp::DelaySubscriptionAt(*rng.pick(&[-5i32, 0, 1, 5, 20, 20, 1000, 1200, 2001])),
      _ => MOp::SubscribeOn,
    };
    let sub_like = matches!(op, MOp::DelaySubscription(_) | MOp::DelaySubscriptionAt(_) | MOp::SubscribeOn);
    let cold = if sub_like || rng.chance(1, 4) { Some(rng.below(5)) } else { None };
    let mut acts = Vec::new();
    let deep = deepen(rng, tier);
    let len = rng.range(3, 24 * deep);
    for i in 0..len {
      let late = i * 3 > len * 2;
      acts.push(match rng.weighted(&[if cold.is_some() { 0 } else { 7 }, if late && cold.is_none() { 3 } else { 0 }, if late && cold.is_none() { 1 } else { 0 }, 7, 2, 3]) {
        0 => Act::Emit,
        1 => Act::Complete,
        2 => Act::Error,
        3 => Act::Run(rng.below(5) as u16),
        4 => Act::Advance(*rng.pick(&[1u32, 3, 7, 30, 30, 1000])),
        _ => Act::AdvanceNext,
      });
    }
    let threads_flavour = rng.chance(1, 2);
    let far = if !matches!(op, MOp::ObserveOn | MOp::SubscribeOn) && rng.chance(1, 15) { rng.range(1, 4) as u8 } else { 0 };
    let creep: Vec<u32> = if far == 0 && matches!(op, MOp::Delay(_) | MOp::DelayAt(_)) && rng.chance(1, 4) { (0..rng.range(1, 6)).map(|_| *rng.pick(&[0u32, 0, 1, 3, 10, 50, 200, 12_000])).collect() } else { vec![] };
    serde_json::to_value(Case { op, threads_flavour, cold, policy: if rng.chance(1, 2) { Policy::Fifo } else { Policy::AnyReady }, acts, far, creep }).unwrap()
  }

  fn run(&self, case: &Value) -> Result<Outcome, String> {
    let case: Case = serde_json::from_value(case.clone()).map_err(|e| e.to_string())?;
    if case.cold.map_or(false, |n| n > 20) {
      return Err("bad cold".into());
    }
    let w = World::new();
    let log = ProbeLog::new(false);
    let p = Probe(log.clone());
    let mut hot_l = Subject::<'static, Val, E>::default();
    let mut hot_s = SubjectThreads::<Val, E>::default();
    let t_build = w.now();
    let far = if case.far > 0 { far_base(case.far) } else { Duration::ZERO };
    let at_of = |off: i32| {
      let t = t_build as i64 + off as i64 * MS as i64;
      (if t >= 0 { instant_at(t as u64) } else { base_instant() - Duration::from_nanos((-t) as u64) }) + far
    };
    let ms = |d: u32| far + Duration::from_micros(d as u64 * 100);
    let cold_items: Vec<Val> = (0..case.cold.unwrap_or(0)).map(|i| Val::I(i as i64 + 1)).collect();
    let _sub: Box<dyn std::any::Any> = if !case.threads_flavour {
      let src: rxrust::ops::box_it::BoxOp<'static, Val, E> = match case.cold {
        Some(_) => observable::from_iter(cold_items.clone()).on_error_map(|_| 0).box_it(),
        None => hot_l.clone().box_it(),
      };
      let s = local_sched();
      match case.op {
        MOp::ObserveOn => Box::new(src.observe_on(s).actual_subscribe(p)),
        MOp::Delay(d) => Box::new(src.delay(ms(d), s).actual_subscribe(p)),
        MOp::DelayAt(off) => Box::new(src.delay_at(at_of(off), s).actual_subscribe(p)),
        MOp::DelaySubscription(d) => Box::new(src.delay_subscription(ms(d), s).actual_subscribe(p)),
        MOp::DelaySubscriptionAt(off) => Box::new(src.delay_subscription_at(at_of(off), s).actual_subscribe(p)),
        MOp::SubscribeOn => Box::new(src.subscribe_on(s).actual_subscribe(p)),
      }
    } else {
      let src: rxrust::ops::box_it::BoxOpThreads<Val, E> = match case.cold {
        Some(_) => observable::from_iter(cold_items.clone()).on_error_map(|_| 0).box_it(),
        None => hot_s.clone().box_it(),
      };
      let s = shared_sched();
      match case.op {
        MOp::ObserveOn => Box::new(src.observe_on_threads(s).actual_subscribe(p)),
        MOp::Delay(d) => Box::new(src.delay_threads(ms(d), s).actual_subscribe(p)),
        MOp::DelayAt(off) => Box::new(src.delay_at_threads(at_of(off), s).actual_subscribe(p)),
        MOp::DelaySubscription(d) => Box::new(src.delay_subscription(ms(d), s).actual_subscribe(p)),
        MOp::DelaySubscriptionAt(off) => Box::new(src.delay_subscription_at(at_of(off), s).actual_subscribe(p)),
        MOp::SubscribeOn => Box::new(src.subscribe_on(s).actual_subscribe(p)),
      }
    };
    let t_sub = w.now();
    set_creep(&case.creep.iter().map(|c| *c as u64 * MS / 10).collect::<Vec<_>>());
    // configured delay (ns) of an item produced at time t: delivery must not be before t + item_delay
    let far_ns = if case.far > 0 { sim_ns(far) } else { 0 };
    // an instant `far` ahead of a moment up to 5 ms in the past is still ahead
    let remaining = |off: i32| if case.far > 0 { (far_ns as i128 + off as i128 * MS as i128).clamp(0, NEVER as i128) as u64 } else { (off.max(0) as u64) * MS };
    let (item_delay, sub_delay) = match case.op {
      MOp::ObserveOn | MOp::SubscribeOn => (0, 0),
      MOp::Delay(d) => ((d as u64 * MS / 10).saturating_add(far_ns), 0),
      MOp::DelayAt(off) => (remaining(off), 0),
      MOp::DelaySubscription(d) => (0, (d as u64 * MS / 10).saturating_add(far_ns)),
      MOp::DelaySubscriptionAt(off) => (0, remaining(off)),
    };
    let opname = format!("{:?}", case.op).split('(').next().unwrap().to_string();
    if case.far > 4 || (case.far > 0 && matches!(case.op, MOp::ObserveOn | MOp::SubscribeOn)) {
      return Err("bad shape".into());
    }
    if case.creep.len() > 16 {
      return Err("bad shape".into());
    }
    let creeping = case.creep.iter().any(|c| *c > 0);
    let site = format!("{}{} policy={:?}{}", opname, if case.threads_flavour { "_threads" } else { "" }, case.policy, if creeping { " clock-creep" } else { "" });
    let mut emitted: Vec<(Val, u64)> = cold_items.iter().map(|v| (v.clone(), t_sub)).collect();
    let mut terminal: Option<Ev> = if case.cold.is_some() { Some(Ev::Complete) } else { None };
    let mut violation: Option<Violation> = None;
    let mut trace = String::new();
    let mut n = 0i64;
    let mut check = |emitted: &Vec<(Val, u64)>, terminal: &Option<Ev>, fin: bool, trace: &str, violation: &mut Option<Violation>| {
      if violation.is_some() {
        return;
      }
      let recs = log.records();
      let evs: Vec<Ev> = recs.iter().map(|r| r.ev.clone()).collect();
      if let Some(i) = grammar_violation(&evs) {
        *violation = Some(Violation { rule: "c07.grammar".into(), site: site.clone(), detail: format!("`{}`: event #{} after terminal: [{}]", trace.trim(), i, fmt_trace(&evs)) });
        return;
      }
      let items: Vec<&crate::probe::Rec> = recs.iter().filter(|r| matches!(r.ev, Ev::Next(_))).collect();
      // order: the delivered items are a prefix of the produced ones
      for (i, r) in items.iter().enumerate() {
        let ok = emitted.get(i).map_or(false, |(v, _)| Ev::Next(v.clone()) == r.ev);
        if !ok {
          *violation = Some(Violation {
            rule: "c07.order".into(),
            site: site.clone(),
            detail: format!("`{}`: source produced [{}] but the subscriber saw [{}]", trace.trim(), emitted.iter().map(|(v, _)| fmt_val(v)).collect::<Vec<_>>().join(" "), fmt_trace(&evs)),
          });
          return;
        }
        let (_, t_emit) = &emitted[i];
        let min = t_emit.saturating_add(item_delay).max(t_sub.saturating_add(sub_delay));
        if r.t < min {
          *violation = Some(Violation {
            rule: "c07.early".into(),
            site: site.clone(),
            detail: format!("`{}`: item {} produced at {}ms was delivered at {}ms, not before {}ms allowed (configured delay {}ms)", trace.trim(), fmt_ev(&r.ev), *t_emit as f64 / 1e6, r.t as f64 / 1e6, min as f64 / 1e6, item_delay.saturating_add(sub_delay) / MS),
          });
          return;
        }
      }
      let term = evs.iter().find(|e| e.is_terminal());
      match (term, terminal) {
        (Some(t), None) => {
          *violation = Some(Violation { rule: "c07.unexpected-terminal".into(), site: site.clone(), detail: format!("`{}`: subscriber got {:?} although the source has not terminated", trace.trim(), t) });
        }
        (Some(t), Some(want)) => {
          if t != want {
            *violation = Some(Violation { rule: "c07.wrong-terminal".into(), site: site.clone(), detail: format!("`{}`: subscriber got {:?}, source terminated with {:?}", trace.trim(), t, want) });
          } else if *t == Ev::Complete && items.len() != emitted.len() {
            *violation = Some(Violation {
              rule: "c07.items-lost".into(),
              site: site.clone(),
              detail: format!("`{}`: source produced [{}] and completed, the subscriber saw [{}]", trace.trim(), emitted.iter().map(|(v, _)| fmt_val(v)).collect::<Vec<_>>().join(" "), fmt_trace(&evs)),
            });
          }
        }
        (None, Some(want)) if fin => {
          *violation = Some(Violation {
            rule: "c07.terminal-missing".into(),
            site: site.clone(),
            detail: format!("`{}`: executor idle, source terminated with {:?}, subscriber saw [{}]", trace.trim(), want, fmt_trace(&evs)),
          });
        }
        (None, None) if fin => {
          if items.len() != emitted.len() {
            *violation = Some(Violation { rule: "c07.items-lost".into(), site: site.clone(), detail: format!("`{}`: executor idle, produced {} items, delivered [{}]", trace.trim(), emitted.len(), fmt_trace(&evs)) });
          }
        }
        _ => {}
      }
    };
    for a in &case.acts {
      match a {
        Act::Emit => {
          if case.cold.is_none() && terminal.is_none() {
            n += 1;
            let v = Val::I(n);
            emitted.push((v.clone(), w.now()));
            if case.threads_flavour {
              hot_s.next(v)
            } else {
              hot_l.next(v)
            }
            trace.push_str(&format!("e{}@{} ", n, w.now() / MS));
          }
        }
        Act::Complete | Act::Error => {
          if case.cold.is_none() && terminal.is_none() {
            let ev = if *a == Act::Complete { Ev::Complete } else { Ev::Err(3) };
            terminal = Some(ev.clone());
            match (&ev, case.threads_flavour) {
              (Ev::Complete, false) => hot_l.clone().complete(),
              (Ev::Complete, true) => hot_s.clone().complete(),
              (_, false) => hot_l.clone().error(3),
              (_, true) => hot_s.clone().error(3),
            }
            trace.push_str(if *a == Act::Complete { "complete " } else { "error " });
          }
        }
        Act::Run(c) => {
          let c = if case.policy == Policy::Fifo { 0 } else { *c as usize };
          if w.run_task(c) {
            trace.push('r');
          }
        }
        Act::Advance(ms) => {
          w.advance_by(*ms as u64 * MS);
          trace.push_str(&format!(" +{} ", ms));
        }
        Act::AdvanceNext => {
          if w.advance_next() {
            trace.push_str(" → ");
          }
        }
      }
      check(&emitted, &terminal, false, &trace, &mut violation);
    }
    // quiescence: keep the run-order policy (it is the scheduler's nature, not a fault)
    let mut guard = 0;
    loop {
      guard += 1;
      if guard > 5000 {
        break;
      }
      if w.ready_count() > 0 {
        let c = if case.policy == Policy::Fifo { 0 } else { (guard * 7 + n as usize) % 5 };
        w.run_task(c);
      } else if !w.advance_next() {
        break;
      }
      check(&emitted, &terminal, false, &trace, &mut violation);
    }
    // with far-ahead delays a deadline may lie beyond the range of the simulated
    // clock (never due in this run): idle is not the end of the story then
    check(&emitted, &terminal, case.far == 0, &trace, &mut violation);
    let recs = log.records();
    let mut h = hash_str(&trace);
    for r in &recs {
      h = hash_mix(h, hash_str(&fmt_ev(&r.ev)) ^ r.t);
    }
    let st = &w.shared.stats;
    let multi = st.multi_ready_decisions.load(SeqCst);
    let jumps = st.clock_jumps_over_2.load(SeqCst);
    let sample = format!("{} src={}: {} => {}", site, if case.cold.is_some() { "cold" } else { "hot" }, trace.trim(), recs.iter().map(|r| format!("{}@{}", fmt_ev(&r.ev), r.t / MS)).collect::<Vec<_>>().join(" "));
    let sim = w.now();
    set_creep(&[]);
    let creeps = st.clock_creeps.load(SeqCst);
    drop(_sub);
    drop(w);
    Ok(Outcome {
      violation,
      trace_hash: h,
      nontrivial: multi > 0 || jumps > 0 || creeps > 0,
      sim_ns: sim,
      steps: case.acts.len() as u64,
      faults: vec![("task_reorder(>=2 ready, AnyReady)", if case.policy == Policy::AnyReady { multi } else { 0 }), ("clock_jump_over_2_deadlines", jumps), ("time_passes_inside_a_timer_creation", creeps), ("far_ahead_delay(2^32 us/ms/s, 2^64 ns)", (case.far > 0) as u64)],
      reach: vec![(">=2_ready_tasks_at_run_decision", multi)],
      resolved: None,
      sample,
    })
  }
}

pub fn check_def() -> PropertyCheck {
  PropertyCheck {
    id: "C07",
    scenarios: vec![Box::new(C07), Box::new(C07Feedback), Box::new(C07Threads)],
    runs: (300_000, 30_000_000),
    rule: "case = operator (observe_on, delay d, delay_at, delay_subscription(_at), subscribe_on; local and _threads; d in {0,1,5,20}ms and 1-2 s, one case in fifteen 2^32 us / 2^32 ms / 2^32 s / 2^64 ns longer; instants before/at/after now) x hot timed source | cold source x executor policy (FIFO queue | any ready task may run next) x script of emit/complete/error/run-task-#k/advance/jump, then quiescence under the same policy; non-trivial = a run decision had >=2 ready tasks or the clock jumped over >=2 deadlines; thread case = observe_on_threads / delay_threads over a hot source driven by an emitting thread (<=6 emits / sleeps, then complete / error / nothing) or over from_iter(1..=n) subscribed by the caller thread (a source that asks is_finished() between items) against one pool worker that takes ready tasks in wake order, under a seeded lock-level schedule",
    assumptions: vec!["the any-ready-task policy is the sequential abstraction of a multi-worker pool (tasks never run in parallel here; the thread-mode arm of C10 covers that)"],
  }
}

// ----------------------------------------------------------------- feedback

/// A subscriber that, from inside its callback, feeds the next item into the
/// hot source of its own pipeline (a trampolined loop through the scheduler).
struct FeedbackProbe {
  log: std::sync::Arc<ProbeLog>,
  limit: i64,
  /// what the subscriber does to the source on receiving the last item, from
  /// inside that delivery: 0 nothing, 1 complete, 2 error
  end: u8,
  local: Option<crate::props::c06::AssertSend<Subject<'static, Val, E>>>,
  shared: Option<SubjectThreads<Val, E>>,
}

impl Observer<Val, E> for FeedbackProbe {
  fn next(&mut self, v: Val) {
    Observer::<Val, E>::next(&mut Probe(self.log.clone()), v.clone());
    if let Val::I(k) = v {
      if k < self.limit {
        if let Some(s) = &mut self.local {
          s.0.next(Val::I(k + 1));
        }
        if let Some(s) = &mut self.shared {
          s.next(Val::I(k + 1));
        }
      } else if k == self.limit && self.end != 0 {
        if let Some(s) = &self.local {
          if self.end == 1 {
            s.0.clone().complete()
          } else {
            s.0.clone().error(4)
          }
        }
        if let Some(s) = &self.shared {
          if self.end == 1 {
            s.clone().complete()
          } else {
            s.clone().error(4)
          }
        }
      }
    }
  }
  fn error(self, e: E) {
    Observer::<Val, E>::error(Probe(self.log.clone()), e)
  }
  fn complete(self) {
    Observer::<Val, E>::complete(Probe(self.log.clone()))
  }
  fn is_finished(&self) -> bool {
    false
  }
}

#[derive(Clone, Debug, Serialize, Deserialize)]
pub struct FCase {
  /// 0 observe_on, d>0 delay of d x 100us
  delay: u32,
  threads_flavour: bool,
  limit: u8,
  any_ready: bool,
  choices: Vec<u8>,
  /// on receiving the last item the subscriber terminates the source from
  /// inside that delivery: 0 no, 1 complete, 2 error
  #[serde(default)]
  end: u8,
}

pub struct C07Feedback;
impl Scenario for C07Feedback {
  fn name(&self) -> &'static str {
    "c07.feedback"
  }
  fn weight(&self) -> usize {
    1
  }
  fn components(&self) -> (&'static [&'static str], &'static [&'static str]) {
    (&["observe_on / delay (+ _threads) with the source fed from inside the delivery of the previous item"], &["executor, timer, clock (sim)"])
  }
  fn generate(&self, rng: &mut Rng, _tier: Tier) -> Value {
    serde_json::to_value(FCase {
      delay: *rng.pick(&[0u32, 0, 3, 10]),
      threads_flavour: rng.chance(1, 2),
      limit: rng.range(2, 6) as u8,
      any_ready: rng.chance(1, 2),
      choices: (0..rng.below(6)).map(|_| rng.below(4) as u8).collect(),
      end: rng.below(3) as u8,
    })
    .unwrap()
  }
  fn run(&self, case: &Value) -> Result<Outcome, String> {
    let case: FCase = serde_json::from_value(case.clone()).map_err(|e| e.to_string())?;
    if case.limit < 1 || case.limit > 20 || case.delay > 1000 || case.end > 2 {
      return Err("bad shape".into());
    }
    let w = World::new();
    let log = ProbeLog::new(false);
    let mut hot_l = Subject::<'static, Val, E>::default();
    let mut hot_s = SubjectThreads::<Val, E>::default();
    let d = Duration::from_micros(case.delay as u64 * 100);
    let _sub: Box<dyn std::any::Any> = if !case.threads_flavour {
      let p = FeedbackProbe { log: log.clone(), limit: case.limit as i64, end: case.end, local: Some(crate::props::c06::AssertSend(hot_l.clone())), shared: None };
      if case.delay == 0 {
        Box::new(hot_l.clone().observe_on(local_sched()).actual_subscribe(p))
      } else {
        Box::new(hot_l.clone().delay(d, local_sched()).actual_subscribe(p))
      }
    } else {
      let p = FeedbackProbe { log: log.clone(), limit: case.limit as i64, end: case.end, local: None, shared: Some(hot_s.clone()) };
      if case.delay == 0 {
        Box::new(hot_s.clone().observe_on_threads(shared_sched()).actual_subscribe(p))
      } else {
        Box::new(hot_s.clone().delay_threads(d, shared_sched()).actual_subscribe(p))
      }
    };
    let r = std::panic::catch_unwind(std::panic::AssertUnwindSafe(|| {
      if case.threads_flavour {
        hot_s.next(Val::I(1))
      } else {
        hot_l.next(Val::I(1))
      }
      let mut i = 0usize;
      let mut polls = 0;
      loop {
        if w.ready_count() > 0 {
          let c = if case.any_ready { *case.choices.get(i).unwrap_or(&0) as usize } else { 0 };
          i += 1;
          w.run_task(c);
          polls += 1;
          if polls > 2000 {
            break;
          }
        } else if !w.advance_next() {
          break;
        }
      }
    }));
    let evs = log.events();
    let mut want: Vec<Ev> = (1..=case.limit as i64).map(|k| Ev::Next(Val::I(k))).collect();
    match case.end {
      1 => want.push(Ev::Complete),
      2 => want.push(Ev::Err(4)),
      _ => {}
    }
    let site = format!("{}{} feedback{}", if case.delay == 0 { "ObserveOn" } else { "Delay" }, if case.threads_flavour { "_threads" } else { "" }, ["", " then complete", " then error"][case.end as usize]);
    let mut violation = None;
    if let Err(p) = r {
      violation = Some(Violation { rule: "c07.panic".into(), site: site.clone(), detail: format!("panic while the subscriber fed the next item into its own source: {}", panic_message(&*p)) });
    } else if case.end != 0 && evs.len() + 1 == want.len() && evs[..] == want[..evs.len()] {
      violation = Some(Violation {
        rule: "c07.terminal-missing".into(),
        site: site.clone(),
        detail: format!("the subscriber re-feeds k+1 on receiving k and, on receiving {}, {} the source from inside that delivery; executor idle, delivered [{}]", case.limit, if case.end == 1 { "completes" } else { "fails" }, fmt_trace(&evs)),
      });
    } else if evs != want {
      violation = Some(Violation {
        rule: "c07.items-lost".into(),
        site: site.clone(),
        detail: format!("the subscriber re-feeds k+1 on receiving k (1..={}); executor idle, delivered [{}]", case.limit, fmt_trace(&evs)),
      });
    }
    let h = hash_mix(hash_str(&site), hash_str(&fmt_trace(&evs)));
    let sim = w.now();
    drop(_sub);
    drop(w);
    Ok(Outcome {
      violation,
      trace_hash: h,
      nontrivial: true,
      sim_ns: sim,
      steps: case.limit as u64,
      faults: vec![("emission_from_inside_a_delivery", case.limit as u64 - 1), ("terminal_from_inside_a_delivery", (case.end > 0) as u64)],
      reach: vec![],
      resolved: None,
      sample: format!("{} limit={} => [{}]", site, case.limit, fmt_trace(&evs)),
    })
  }
}

// ------------------------------------------------------------------- threads
//
// observe_on_threads / delay_threads on a one-worker FIFO pool: the emitting
// thread and the worker really interleave at lock granularity; the worker takes
// ready tasks in wake order (the reordering of the open finding needs a pool
// that may run any ready task next, which is the DES arm's second policy).

#[derive(Clone, Debug, Serialize, Deserialize, PartialEq)]
pub enum TEv {
  Emit,
  Sleep(u8),
}

#[derive(Clone, Debug, Serialize, Deserialize)]
pub struct TCase {
  /// 0 = observe_on_threads, d > 0 = delay_threads(d * 100us)
  delay_100us: u32,
  script: Vec<TEv>,
  /// 0 = no terminal, 1 = complete, 2 = error
  terminal: u8,
  sched: crate::threadsim::SchedSpec,
  /// n > 0: instead of the hot source, the caller thread subscribes
  /// `from_iter(1..=n)` - a source that asks `is_finished()` between items -
  /// while the worker is already delivering; it completes by itself
  #[serde(default)]
  cold: usize,
}

pub struct C07Threads;

impl Scenario for C07Threads {
  fn name(&self) -> &'static str {
    "c07.threads"
  }
  fn components(&self) -> (&'static [&'static str], &'static [&'static str]) {
    (&["observe_on_threads / delay_threads: emitting thread against one pool worker polling the scheduled tasks (MutArc locks, task handles, MultiSubscriptionThreads interleaved)"], &["one-worker FIFO pool and OS thread scheduling (baton)", "timer, clock (sim)"])
  }
  fn generate(&self, rng: &mut Rng, _tier: Tier) -> Value {
    use crate::threadsim::{SchedSpec, Strategy};
    let mut script = Vec::new();
    for _ in 0..rng.range(1, 6) {
      script.push(if rng.chance(2, 3) { TEv::Emit } else { TEv::Sleep(*rng.pick(&[1u8, 1, 2, 3])) });
    }
    let strategy = match rng.below(3) {
      0 => Strategy::Random,
      1 => Strategy::Seq { den: 3 },
      _ => Strategy::Pct { d: rng.range(1, 3) as u8, k: 60 },
    };
    let cold = if rng.chance(1, 4) { rng.range(2, 6) } else { 0 };
    serde_json::to_value(TCase { delay_100us: *rng.pick(&[0u32, 0, 3, 10, 20]), script, terminal: if cold > 0 { 1 } else { rng.below(3) as u8 }, sched: SchedSpec::Seeded { seed: rng.next_u64(), strategy }, cold }).unwrap()
  }
  fn run(&self, case: &Value) -> Result<Outcome, String> {
    use crate::threadsim::*;
    let case: TCase = serde_json::from_value(case.clone()).map_err(|e| e.to_string())?;
    if case.script.len() > 10 || case.terminal > 2 || case.delay_100us > 1000 || case.cold > 12 || (case.cold > 0 && case.terminal != 1) {
      return Err("bad shape".into());
    }
    let shr = Shared::new();
    let w = World::with_shared(shr.clone());
    let log = ProbeLog::new(true);
    let p = Probe(log.clone());
    let hot = SubjectThreads::<Val, E>::default();
    let p_cold = Probe(log.clone());
    let ts = TSim::new(shr.clone(), &case.sched, 1, 1, 40_000);
    ts.fifo_tasks.store(true, SeqCst);
    let s = shared_sched();
    let delay = Duration::from_micros(case.delay_100us as u64 * 100);
    let sub: Box<dyn std::any::Any + Send> = ts.with_pool(|| {
      let src = hot.clone();
      if case.delay_100us == 0 {
        Box::new(src.observe_on_threads(s).actual_subscribe(p)) as Box<dyn std::any::Any + Send>
      } else {
        Box::new(src.delay_threads(delay, s).actual_subscribe(p))
      }
    });
    // (item, virtual time at which next() was invoked)
    let emitted = std::sync::Arc::new(std::sync::Mutex::new(Vec::<(i64, u64)>::new()));
    let term_at = std::sync::Arc::new(std::sync::Mutex::new(None::<u64>));
    let mut bodies: Vec<Body> = Vec::new();
    let cold_sub: std::sync::Arc<std::sync::Mutex<Option<Box<dyn std::any::Any + Send>>>> = Default::default();
    if case.cold > 0 {
      let n = case.cold as i64;
      let emitted = emitted.clone();
      let term_at = term_at.clone();
      let cold_sub = cold_sub.clone();
      let d0 = case.delay_100us == 0;
      bodies.push(Box::new(move || {
        let t0 = shared().now();
        *emitted.lock().unwrap() = (1..=n).map(|i| (i, t0)).collect();
        *term_at.lock().unwrap() = Some(t0);
        let src = observable::from_iter((1..=n).map(|i| {
          harness_yield("between-items");
          Val::I(i)
        }))
        .on_error_map(|_| 0);
        let sub: Box<dyn std::any::Any + Send> = if d0 { Box::new(src.observe_on_threads(shared_sched()).actual_subscribe(p_cold)) } else { Box::new(src.delay_threads(delay, shared_sched()).actual_subscribe(p_cold)) };
        *cold_sub.lock().unwrap() = Some(sub);
      }));
    } else {
      let mut hot = hot.clone();
      let script = case.script.clone();
      let terminal = case.terminal;
      let emitted = emitted.clone();
      let term_at = term_at.clone();
      bodies.push(Box::new(move || {
        let mut n = 0i64;
        for op in &script {
          match op {
            TEv::Emit => {
              n += 1;
              emitted.lock().unwrap().push((n, shared().now()));
              hot.next(Val::I(n));
            }
            TEv::Sleep(ms) => harness_sleep_ms(*ms as u64),
          }
          harness_yield("between-ops");
        }
        match terminal {
          1 => {
            *term_at.lock().unwrap() = Some(shared().now());
            hot.complete()
          }
          2 => {
            *term_at.lock().unwrap() = Some(shared().now());
            hot.error(3)
          }
          _ => {}
        }
      }));
    }
    let rep = ts.run(bodies);
    let recs = log.records();
    let got: Vec<Ev> = recs.iter().map(|r| r.ev.clone()).collect();
    let em = emitted.lock().unwrap().clone();
    let site = format!("{} (threads, one FIFO worker{})", if case.delay_100us == 0 { "ObserveOn" } else { "Delay" }, if case.cold > 0 { ", cold source" } else { "" });
    let d_ns = case.delay_100us as u64 * 100_000;
    let mut violation: Option<Violation> = None;
    let mut bad = |rule: &str, detail: String| {
      if violation.is_none() {
        violation = Some(Violation { rule: rule.into(), site: site.clone(), detail });
      }
    };
    if let Some(d) = &rep.deadlock {
      bad("c07.deadlock", d.clone());
    } else if rep.budget_overrun {
      bad("c07.livelock", "step budget exhausted".into());
    } else if let Some((t, m)) = rep.panics.first() {
      bad("c07.panic", format!("thread {} panicked: {}", t, m));
    } else if log.overlap.load(SeqCst) {
      bad("c07.overlap", "the subscriber was entered on two threads at once".into());
    } else if let Some(i) = grammar_violation(&got) {
      bad("c07.grammar", format!("event #{} after terminal: [{}]", i, fmt_trace(&got)));
    } else {
      let items: Vec<i64> = got.iter().filter_map(|e| if let Ev::Next(Val::I(i)) = e { Some(*i) } else { None }).collect();
      let want: Vec<i64> = em.iter().map(|(i, _)| *i).collect();
      if items.windows(2).any(|w| w[0] >= w[1]) || items.iter().any(|i| !want.contains(i)) {
        bad("c07.order", format!("source emitted {:?}, delivered [{}]", want, fmt_trace(&got)));
      }
      for r in &recs {
        if let Ev::Next(Val::I(i)) = &r.ev {
          if let Some((_, t0)) = em.iter().find(|(x, _)| x == i) {
            if r.t < t0 + d_ns {
              bad("c07.early", format!("item {} produced at {}us was delivered at {}us, configured delay {}us", i, t0 / 1000, r.t / 1000, d_ns / 1000));
            }
          }
        }
      }
      // every thread has returned and a 100 ms virtual horizon has passed
      match case.terminal {
        1 => {
          if items != want {
            bad("c07.items-lost", format!("the source completed after {:?}; delivered [{}]", want, fmt_trace(&got)));
          } else if got.last() != Some(&Ev::Complete) {
            bad("c07.terminal-missing", format!("the source completed; delivered [{}]", fmt_trace(&got)));
          }
        }
        2 => {
          if !want.starts_with(&items) {
            bad("c07.order", format!("the source failed after {:?}; delivered [{}] is not a prefix", want, fmt_trace(&got)));
          } else if got.last() != Some(&Ev::Err(3)) {
            bad("c07.terminal-missing", format!("the source failed; delivered [{}]", fmt_trace(&got)));
          }
        }
        _ => {
          if items != want {
            bad("c07.items-lost", format!("the source emitted {:?} and every task had time to run; delivered [{}]", want, fmt_trace(&got)));
          } else if got.iter().any(|e| e.is_terminal()) {
            bad("c07.unexpected-terminal", format!("[{}]", fmt_trace(&got)));
          }
        }
      }
    }
    let mut resolved = case.clone();
    resolved.sched = SchedSpec::Explicit(rep.decisions.clone());
    let mut h = rep.trace_hash;
    for r in &recs {
      h = hash_mix(h, hash_str(&fmt_ev(&r.ev)) ^ r.t);
    }
    let sim = shr.now();
    let _ = std::panic::catch_unwind(std::panic::AssertUnwindSafe(|| {
      drop(sub);
      drop(cold_sub);
      drop(hot);
      drop(w);
    }));
    Ok(Outcome {
      violation,
      trace_hash: h,
      nontrivial: rep.multi_choice > 0,
      sim_ns: sim,
      steps: rep.steps,
      faults: vec![("preemption_at_lock_point", rep.preemptions), ("lock_contention", rep.contentions)],
      reach: vec![("try_lock_contention_observed", (rep.contentions > 0) as u64)],
      resolved: Some(serde_json::to_value(resolved).unwrap()),
      sample: format!("{} d={}us script={:?} terminal={} decisions={} => {}", site, d_ns / 1000, case.script, case.terminal, rep.decisions.len(), recs.iter().map(|r| format!("{}@{}us/t{}", fmt_ev(&r.ev), r.t / 1000, r.tid)).collect::<Vec<_>>().join(" ")),
    })
  }
}
