//! C19 — scheduled tasks run at most once, never early, and stay cancelled.
//!
//! Real: `Scheduler::schedule` (impl_scheduler_method), `Remote::poll`,
//! `TaskHandle::{unsubscribe,is_closed}`, `OnceTask`, `RepeatTask`,
//! `FutureTask`, `new_timer`. Stub: executor, timer, clock.

use crate::framework::*;
use crate::probe::*;
use crate::rng::Rng;
use crate::threadsim::*;
use crate::world::*;
use rxrust::prelude::*;
use serde::{Deserialize, Serialize};
use serde_json::Value;
use std::sync::{Arc, Mutex};
use std::time::Duration;

#[derive(Clone, Debug, Serialize, Deserialize, PartialEq)]
pub enum Kind {
  Once,
  /// the body subscribes a probe to the hot subject and returns the subscription
  Sub,
  /// repeats until `limit` runs (declines at seq == limit)
  /// `first_ms`: `RepeatTask::with_first_delay(first, period, ..)`
  Repeat {
    period_ms: u32,
    limit: u32,
    #[serde(default)]
    first_ms: Option<u32>,
  },
  /// FutureTask over a future that is pending `polls` times (self-waking)
  Fut { polls: u32 },
  /// FutureTask over a virtual timer of `ms`
  FutTimer { ms: u32 },
}

#[derive(Clone, Debug, Serialize, Deserialize)]
pub struct TaskSpec {
  kind: Kind,
  /// delay in microseconds (sub-millisecond delays are legal durations)
  delay_us: Option<u32>,
  /// k > 0: the delay is `far_base(k)` + delay_us (2^32 us, 2^32 ms, 2^32 s,
  /// 2^64 ns: where a truncating conversion would wrap)
  #[serde(default)]
  far: u8,
}

#[derive(Clone, Debug, Serialize, Deserialize)]
pub enum Act {
  Schedule(usize),
  Run(u16),
  Advance(u32),
  AdvanceNext,
  Cancel(usize),
  Sample(usize),
  Emit,
}

#[derive(Clone, Debug, Serialize, Deserialize)]
pub struct Case {
  tasks: Vec<TaskSpec>,
  acts: Vec<Act>,
  fifo: bool,
}

#[derive(Default)]
struct TaskLog {
  scheduled_at: Option<u64>,
  sched_seq: u64,
  runs: Vec<(u64, u64, usize)>, // (t, stamp, seq)
  cancelled_at_stamp: Option<u64>,
  closed_seen_at_stamp: Option<u64>,
}

type Logs = Arc<Mutex<Vec<TaskLog>>>;

#[derive(Clone)]
struct Args {
  id: usize,
  logs: Logs,
  subject: SubjectThreads<i64, i32>,
  probe: Arc<ProbeLog>,
  limit: usize,
}

fn note_run(a: &Args, seq: usize) {
  let sh = shared();
  a.logs.lock().unwrap()[a.id].runs.push((sh.now(), sh.stamp(), seq));
}

fn once_body(a: Args) -> NormalReturn<()> {
  note_run(&a, 0);
  NormalReturn::new(())
}

fn sub_body(a: Args) -> SubscribeReturn<SubscriberThreads<Probe>> {
  note_run(&a, 0);
  let u = a.subject.clone().actual_subscribe(Probe(a.probe.clone()));
  SubscribeReturn::new(u)
}

fn repeat_body(a: &mut Args, seq: usize) -> bool {
  if seq >= a.limit {
    return false;
  }
  // a task that is handed a wrong sequence number declines (the run is recorded
  // and judged): with a zero period it would otherwise never come to an end
  let expected = a.logs.lock().unwrap()[a.id].runs.len();
  note_run(a, seq);
  seq == expected
}

fn fut_body(_: (), a: Args) -> NormalReturn<()> {
  note_run(&a, 0);
  NormalReturn::new(())
}

struct PendingK(u32);
impl std::future::Future for PendingK {
  type Output = ();
  fn poll(mut self: std::pin::Pin<&mut Self>, cx: &mut std::task::Context<'_>) -> std::task::Poll<()> {
    if self.0 == 0 {
      std::task::Poll::Ready(())
    } else {
      self.0 -= 1;
      cx.waker().wake_by_ref();
      std::task::Poll::Pending
    }
  }
}

enum Handle {
  Normal(TaskHandle<NormalReturn<()>>),
  Sub(TaskHandle<SubscribeReturn<SubscriberThreads<Probe>>>),
}

pub struct C19Des;

impl Scenario for C19Des {
  fn name(&self) -> &'static str {
    "c19.des"
  }
  fn weight(&self) -> usize {
    4
  }
  fn components(&self) -> (&'static [&'static str], &'static [&'static str]) {
    (
      &["scheduler.rs: schedule/impl_scheduler_method, Remote::poll, TaskHandle, OnceTask, RepeatTask, FutureTask", "SubjectThreads", "SubscriberThreads"],
      &["executor (sim, via VerifSharedScheduler)", "timer (sim, via NEW_TIMER_FN)", "clock (virtual)"],
    )
  }
  fn generate(&self, rng: &mut Rng, tier: Tier) -> Value {
    let deep = deepen(rng, tier);
    let n = rng.range(1, 4 * deep);
    let mut tasks = Vec::new();
    for _ in 0..n {
      let kind = match rng.below(6) {
        0 | 1 => Kind::Once,
        2 => Kind::Sub,
        3 => Kind::Repeat { period_ms: *rng.pick(&[1, 2, 5, 5, 1000, 0]), limit: rng.range(0, 4) as u32, first_ms: if rng.chance(1, 3) { Some(*rng.pick(&[0, 1, 3, 7, 7, 1200])) } else { None } },
        4 => Kind::Fut { polls: rng.below(3) as u32 },
        _ => Kind::FutTimer { ms: *rng.pick(&[0, 1, 5, 5, 1001]) },
      };
      let delay_us = if rng.chance(1, 4) { None } else { Some(*rng.pick(&[0u32, 300, 999, 1000, 5000, 5000, 1_000_000, 1_200_500])) };
      // one delayed task in fifteen is due 584 years ahead
      let far = if delay_us.is_some() && rng.chance(1, 12) { rng.range(1, 4) as u8 } else { 0 };
      tasks.push(TaskSpec { kind, delay_us, far });
    }
    let mut acts = Vec::new();
    let len = rng.range(4, 24 * deep);
    let mut scheduled = 0;
    for _ in 0..len {
      let a = match rng.weighted(&[3, 6, 3, 3, 3, 3, 2]) {
        0 if scheduled < n => {
          scheduled += 1;
          Act::Schedule(scheduled - 1)
        }
        0 | 1 => Act::Run(rng.below(8) as u16),
        2 => Act::Advance(*rng.pick(&[1u32, 1, 2, 5, 13, 13, 1000])),
        3 => Act::AdvanceNext,
        4 => Act::Cancel(rng.below(n)),
        5 => Act::Sample(rng.below(n)),
        _ => Act::Emit,
      };
      acts.push(a);
    }
    serde_json::to_value(Case { tasks, acts, fifo: rng.chance(1, 4) }).unwrap()
  }

  fn run(&self, case: &Value) -> Result<Outcome, String> {
    let case: Case = serde_json::from_value(case.clone()).map_err(|e| e.to_string())?;
    if case.tasks.len() > 8 {
      return Err("too many tasks".into());
    }
    let w = World::new();
    let sched = shared_sched();
    let logs: Logs = Arc::new(Mutex::new((0..case.tasks.len()).map(|_| TaskLog::default()).collect()));
    let mut subject = SubjectThreads::<i64, i32>::default();
    let probes: Vec<Arc<ProbeLog>> = (0..case.tasks.len()).map(|_| ProbeLog::new(false)).collect();
    let mut handles: Vec<Option<Handle>> = (0..case.tasks.len()).map(|_| None).collect();
    let mut violation: Option<Violation> = None;
    let mut emitted = 0i64;
    let mut cancels_pending = 0u64;
    let mut cancels_before_poll = 0u64;
    let mut cancels_after_done = 0u64;
    let mut trace = String::new();

    for act in &case.acts {
      match act {
        Act::Schedule(k) => {
          let k = *k % case.tasks.len();
          if logs.lock().unwrap()[k].scheduled_at.is_some() {
            continue;
          }
          let spec = &case.tasks[k];
          let args = Args {
            id: k,
            logs: logs.clone(),
            subject: subject.clone(),
            probe: probes[k].clone(),
            limit: match spec.kind {
              Kind::Repeat { limit, .. } => limit as usize,
              _ => 0,
            },
          };
          let delay = spec.delay_us.map(|d| if spec.far > 0 { far_base(spec.far) + Duration::from_micros(d as u64) } else { Duration::from_micros(d as u64) });
          {
            let mut l = logs.lock().unwrap();
            l[k].scheduled_at = Some(w.now());
            l[k].sched_seq = w.shared.stamp();
          }
          let h = match &spec.kind {
            Kind::Once => Handle::Normal(sched.schedule(OnceTask::new(once_body, args), delay)),
            Kind::Sub => Handle::Sub(sched.schedule(OnceTask::new(sub_body, args), delay)),
            Kind::Repeat { period_ms, first_ms: None, .. } => Handle::Normal(sched.schedule(
              RepeatTask::new(Duration::from_millis(*period_ms as u64), repeat_body, args),
              delay,
            )),
            Kind::Repeat { period_ms, first_ms: Some(f), .. } => Handle::Normal(sched.schedule(
              RepeatTask::with_first_delay(Duration::from_millis(*f as u64), Duration::from_millis(*period_ms as u64), repeat_body, args),
              delay,
            )),
            Kind::Fut { polls } => {
              Handle::Normal(sched.schedule(FutureTask::new(PendingK(*polls), fut_body, args), delay))
            }
            Kind::FutTimer { ms } => Handle::Normal(sched.schedule(
              FutureTask::new(w.shared.new_timer(Duration::from_millis(*ms as u64)), fut_body, args),
              delay,
            )),
          };
          handles[k] = Some(h);
          trace.push_str(&format!("S{}@{} ", k, w.now() / MS));
        }
        Act::Run(c) => {
          let c = if case.fifo { 0 } else { *c as usize };
          if w.run_task(c) {
            trace.push('r');
          }
        }
        Act::Advance(ms) => {
          w.advance_by(*ms as u64 * MS);
          trace.push_str(&format!("+{} ", ms));
        }
        Act::AdvanceNext => {
          if w.advance_next() {
            trace.push_str(&format!("→{} ", w.now() / MS));
          }
        }
        Act::Cancel(k) => {
          let k = *k % case.tasks.len();
          if let Some(h) = handles[k].take() {
            let ran = !logs.lock().unwrap()[k].runs.is_empty();
            if ran {
              cancels_after_done += 1;
            } else if w.ready_count() > 0 {
              cancels_before_poll += 1;
            } else {
              cancels_pending += 1;
            }
            match h {
              Handle::Normal(h) => h.unsubscribe(),
              Handle::Sub(h) => h.unsubscribe(),
            }
            logs.lock().unwrap()[k].cancelled_at_stamp = Some(w.shared.stamp());
            trace.push_str(&format!("X{} ", k));
          }
        }
        Act::Sample(k) => {
          let k = *k % case.tasks.len();
          if let Some(h) = &handles[k] {
            let closed = match h {
              Handle::Normal(h) => h.is_closed(),
              Handle::Sub(h) => h.is_closed(),
            };
            if closed {
              let mut l = logs.lock().unwrap();
              if l[k].closed_seen_at_stamp.is_none() {
                l[k].closed_seen_at_stamp = Some(w.shared.stamp());
              }
            }
          }
        }
        Act::Emit => {
          emitted += 1;
          subject.next(emitted);
          trace.push_str("e ");
        }
      }
      if violation.is_none() {
        violation = check(&case, &logs, &probes);
      }
    }
    // quiescence: no more cancels; let everything run
    let until = w.now().saturating_add(600_000 * MS);
    let mut idle = w.quiesce(2000, until);
    // a task that is due months or centuries ahead is legitimately still waiting
    // for its timer: nothing is ready and nothing falls due within the window
    if !idle && case.tasks.iter().any(|t| t.far > 0) && w.ready_count() == 0 && w.shared.next_deadline().map_or(true, |d| d > until) {
      idle = true;
    }
    emitted += 1;
    subject.next(emitted);
    if violation.is_none() {
      violation = check(&case, &logs, &probes);
    }
    // bounded liveness: the faults have stopped and the executor ran until idle
    // (up to 600 virtual seconds): a repeating task that was never cancelled has
    // gone on, one period at a time, until it declined
    if violation.is_none() && idle {
      let l = logs.lock().unwrap();
      for (k, t) in l.iter().enumerate() {
        if let Kind::Repeat { limit, .. } = case.tasks[k].kind {
          if t.scheduled_at.is_some() && t.cancelled_at_stamp.is_none() && case.tasks[k].far == 0 && t.runs.len() < limit as usize {
            violation = Some(Violation {
              rule: "c19.repeat-stopped-early".into(),
              site: "Repeat".into(),
              detail: format!("task {} ({:?}) was never cancelled and declines only at run #{}; the executor is idle and it has run {} time(s)", k, case.tasks[k].kind, limit, t.runs.len()),
            });
            break;
          }
        }
      }
    }
    if violation.is_none() && !idle {
      violation = Some(Violation {
        rule: "c19.quiescence".into(),
        site: "scheduler".into(),
        detail: "executor did not become idle within the budget after the script".into(),
      });
    }
    let mut h = hash_str(&trace);
    let mut summary = String::new();
    for (k, l) in logs.lock().unwrap().iter().enumerate() {
      for r in &l.runs {
        h = hash_mix(h, (k as u64) << 40 | r.0 / MS << 8 | r.2 as u64);
      }
      summary.push_str(&format!(
        "t{}:{:?}{} runs@ms={:?}{}; ",
        k,
        case.tasks[k].kind,
        case.tasks[k].delay_us.map_or(String::new(), |d| format!("+{}us", d)),
        l.runs.iter().map(|r| r.0 / MS).collect::<Vec<_>>(),
        if l.cancelled_at_stamp.is_some() { " cancelled" } else { "" }
      ));
      h = hash_mix(h, probes[k].len() as u64);
    }
    let st = &w.shared.stats;
    use std::sync::atomic::Ordering::SeqCst;
    let multi = st.multi_ready_decisions.load(SeqCst);
    let out = Outcome {
      violation,
      trace_hash: h,
      nontrivial: multi > 0 || cancels_pending + cancels_before_poll > 0,
      sim_ns: w.now(),
      steps: st.tasks_polled.load(SeqCst),
      faults: vec![
        ("cancel_before_first_poll", cancels_before_poll),
        ("cancel_while_pending_on_timer", cancels_pending),
        ("cancel_after_completion", cancels_after_done),
        ("task_reorder(>=2 ready)", if case.fifo { 0 } else { multi }),
        ("clock_jump_over_2_deadlines", st.clock_jumps_over_2.load(SeqCst)),
        ("far_ahead_delay(2^32 us/ms/s, 2^64 ns)", case.tasks.iter().filter(|t| t.far > 0).count() as u64),
      ],
      reach: vec![],
      resolved: None,
      sample: format!("{} | {}", trace.trim(), summary),
    };
    drop(handles);
    drop(w);
    Ok(out)
  }
}

fn check(case: &Case, logs: &Logs, probes: &[Arc<ProbeLog>]) -> Option<Violation> {
  let logs = logs.lock().unwrap();
  for (k, l) in logs.iter().enumerate() {
    let spec = &case.tasks[k];
    let Some(t0) = l.scheduled_at else { continue };
    let delay = if spec.far > 0 { sim_ns(far_base(spec.far) + Duration::from_micros(spec.delay_us.unwrap_or(0) as u64)).min(u64::MAX - t0) } else { spec.delay_us.unwrap_or(0) as u64 * 1000 };
    let kind = format!("{:?}", spec.kind).split(|c: char| !c.is_alphanumeric()).next().unwrap().to_string();
    let extra = match spec.kind {
      Kind::FutTimer { ms } => ms as u64 * MS,
      _ => 0,
    };
    let _ = extra;
    match spec.kind {
      Kind::Repeat { period_ms, first_ms, .. } => {
        let p = period_ms as u64 * MS;
        // the task's own first timer is armed when the task is built (= when
        // it is scheduled here): the first run waits for both that and the
        // scheduling delay
        let delay = delay.max(first_ms.map_or(0, |f| f as u64 * MS));
        for (i, r) in l.runs.iter().enumerate() {
          if r.2 != i {
            return Some(Violation {
              rule: "c19.repeat-seq".into(),
              site: kind,
              detail: format!("task {} repeat run #{} had seq {}", k, i, r.2),
            });
          }
          let min = if i == 0 { t0 + delay } else { l.runs[i - 1].0 + p };
          if r.0 < min {
            return Some(Violation {
              rule: "c19.early".into(),
              site: kind,
              detail: format!("task {} repeat run #{} at {}ns < earliest {}ns", k, i, r.0, min),
            });
          }
        }
      }
      _ => {
        if l.runs.len() > 1 {
          return Some(Violation {
            rule: "c19.more-than-once".into(),
            site: kind,
            detail: format!("task {} ran {} times", k, l.runs.len()),
          });
        }
        if let Some(r) = l.runs.first() {
          if r.0 < t0 + delay {
            return Some(Violation {
              rule: "c19.early".into(),
              site: kind,
              detail: format!("task {} ran at {}ns, scheduled at {}ns with delay {}ns", k, r.0, t0, delay),
            });
          }
        }
      }
    }
    if let Some(c) = l.cancelled_at_stamp {
      if let Some(r) = l.runs.iter().find(|r| r.1 > c) {
        return Some(Violation {
          rule: "c19.run-after-cancel".into(),
          site: kind,
          detail: format!("task {} body started (stamp {}) after unsubscribe() returned (stamp {})", k, r.1, c),
        });
      }
      if let Some(r) = probes[k].records().iter().find(|r| r.seq > c) {
        return Some(Violation {
          rule: "c19.delivery-after-cancel".into(),
          site: kind,
          detail: format!("task {}: subscription produced by the task delivered {:?} after the handle was unsubscribed", k, r.ev),
        });
      }
    }
    if let Some(c) = l.closed_seen_at_stamp {
      if let Some(r) = l.runs.iter().find(|r| r.1 > c) {
        return Some(Violation {
          rule: "c19.closed-then-run".into(),
          site: kind,
          detail: format!("task {} handle reported closed at stamp {} but the body ran at stamp {}", k, c, r.1),
        });
      }
      if let Some(r) = probes[k].records().iter().find(|r| r.seq > c) {
        return Some(Violation {
          rule: "c19.closed-then-delivery".into(),
          site: kind,
          detail: format!("task {} handle reported closed at stamp {} but its subscription delivered {:?} later", k, c, r.ev),
        });
      }
    }
  }
  None
}

pub fn check_def() -> PropertyCheck {
  PropertyCheck {
    id: "C19",
    scenarios: vec![Box::new(C19Des), Box::new(C19Threads)],
    runs: (300_000, 24_000_000),
    rule: "case = 1-4 tasks (Once/Sub/Repeat/Future) with delays {none,0,0.3,1,5,1000}ms, one delayed task in twelve 2^32 us / 2^32 ms / 2^32 s / 2^64 ns later, + action list (schedule, run ready task #k, advance clock, jump to next deadline, cancel handle, sample is_closed, emit to subject); non-trivial = a cancel landed before the first poll or while pending on a timer, or a run decision had >= 2 ready tasks; distinct = distinct (case, behaviour) hashes",
    assumptions: vec![
      "executor/timer/clock are the simulator's; schedule(), Remote, TaskHandle and the task types are the shipped code",
      "sequentially consistent execution; no weak-memory effects",
    ],
  }
}

// ------------------------------------------------------------------ threads

#[derive(Clone, Debug, Serialize, Deserialize)]
pub struct TCase {
  tasks: Vec<TaskSpec>,
  /// canceller script: indices of tasks to cancel, in order (modulo)
  cancels: Vec<usize>,
  workers: usize,
  sched: SchedSpec,
}

#[derive(Default)]
struct TTaskLog {
  /// (enter stamp, exit stamp, seq, virtual time)
  runs: Vec<(u64, u64, usize, u64)>,
  cancel: Option<(u64, u64)>,
}
type TLogs = Arc<Mutex<Vec<TTaskLog>>>;

#[derive(Clone)]
struct TArgs {
  id: usize,
  logs: TLogs,
  limit: usize,
  subject: SubjectThreads<i64, i32>,
  probe: Arc<ProbeLog>,
}

enum THandle {
  Normal(TaskHandle<NormalReturn<()>>),
  Sub(TaskHandle<SubscribeReturn<SubscriberThreads<Probe>>>),
}

fn t_sub(a: TArgs) -> SubscribeReturn<SubscriberThreads<Probe>> {
  t_note(&a, 0);
  SubscribeReturn::new(a.subject.clone().actual_subscribe(Probe(a.probe.clone())))
}

fn t_note(a: &TArgs, seq: usize) {
  let sh = shared();
  let enter = sh.stamp();
  let idx = {
    let mut l = a.logs.lock().unwrap();
    l[a.id].runs.push((enter, u64::MAX, seq, sh.now()));
    l[a.id].runs.len() - 1
  };
  // the body takes a while: other threads may run in between
  harness_yield("task-body");
  let exit = sh.stamp();
  a.logs.lock().unwrap()[a.id].runs[idx].1 = exit;
}
fn t_once(a: TArgs) -> NormalReturn<()> {
  t_note(&a, 0);
  NormalReturn::new(())
}
fn t_repeat(a: &mut TArgs, seq: usize) -> bool {
  if seq >= a.limit {
    return false;
  }
  t_note(a, seq);
  true
}
fn t_fut(_: (), a: TArgs) -> NormalReturn<()> {
  t_note(&a, 0);
  NormalReturn::new(())
}

pub struct C19Threads;

impl Scenario for C19Threads {
  fn name(&self) -> &'static str {
    "c19.threads"
  }
  fn weight(&self) -> usize {
    1
  }
  fn components(&self) -> (&'static [&'static str], &'static [&'static str]) {
    (&["Remote::poll (handle mutex held while the task is polled) vs TaskHandle::unsubscribe on another thread", "schedule() delay wrapper, OnceTask, RepeatTask, FutureTask"], &["pool workers and canceller are simulated threads (baton)", "timer, clock (sim)"])
  }
  fn generate(&self, rng: &mut Rng, _tier: Tier) -> Value {
    let n = rng.range(1, 3);
    let tasks: Vec<TaskSpec> = (0..n)
      .map(|_| TaskSpec {
        kind: match rng.below(6) {
          0 | 1 => Kind::Once,
          2 => Kind::Repeat { period_ms: 1, limit: rng.range(1, 3) as u32, first_ms: if rng.chance(1, 3) { Some(rng.range(0, 3) as u32) } else { None } },
          3 | 4 => Kind::Sub,
          _ => Kind::Fut { polls: rng.below(3) as u32 },
        },
        delay_us: if rng.chance(1, 2) { None } else { Some(*rng.pick(&[0u32, 400, 1000])) },
        far: 0,
      })
      .collect();
    let cancels = (0..rng.range(1, n)).map(|_| rng.below(n)).collect();
    let strategy = match rng.below(3) {
      0 => Strategy::Random,
      1 => Strategy::Seq { den: 3 },
      _ => Strategy::Pct { d: rng.range(1, 3) as u8, k: 40 },
    };
    serde_json::to_value(TCase { tasks, cancels, workers: rng.range(1, 2), sched: SchedSpec::Seeded { seed: rng.next_u64(), strategy } }).unwrap()
  }
  fn run(&self, case: &Value) -> Result<Outcome, String> {
    let case: TCase = serde_json::from_value(case.clone()).map_err(|e| e.to_string())?;
    if case.tasks.is_empty() || case.tasks.len() > 4 || case.workers == 0 || case.workers > 3 || case.cancels.len() > 6 {
      return Err("bad shape".into());
    }
    for t in &case.tasks {
      match t.kind {
        Kind::Repeat { period_ms, limit, .. } if period_ms == 0 || limit > 5 => return Err("bad repeat".into()),
        Kind::FutTimer { .. } => return Err("kind not used in thread arm".into()),
        _ => {}
      }
    }
    let shr = Shared::new();
    let w = World::with_shared(shr.clone());
    let logs: TLogs = Arc::new(Mutex::new((0..case.tasks.len()).map(|_| TTaskLog::default()).collect()));
    let ts = TSim::new(shr.clone(), &case.sched, 1, case.workers, 20_000);
    let sched = shared_sched();
    let mut subject = SubjectThreads::<i64, i32>::default();
    let probes: Vec<Arc<ProbeLog>> = (0..case.tasks.len()).map(|_| ProbeLog::new(false)).collect();
    let handles: Vec<Option<THandle>> = ts.with_pool(|| {
      case
        .tasks
        .iter()
        .enumerate()
        .map(|(k, spec)| {
          let args = TArgs {
            id: k,
            logs: logs.clone(),
            limit: if let Kind::Repeat { limit, .. } = spec.kind { limit as usize } else { 0 },
            subject: subject.clone(),
            probe: probes[k].clone(),
          };
          let delay = spec.delay_us.map(|d| Duration::from_micros(d as u64));
          Some(match &spec.kind {
            Kind::Once => THandle::Normal(sched.schedule(OnceTask::new(t_once, args), delay)),
            Kind::Sub => THandle::Sub(sched.schedule(OnceTask::new(t_sub, args), delay)),
            Kind::Repeat { period_ms, first_ms: None, .. } => THandle::Normal(sched.schedule(RepeatTask::new(Duration::from_millis(*period_ms as u64), t_repeat, args), delay)),
            Kind::Repeat { period_ms, first_ms: Some(f), .. } => THandle::Normal(sched.schedule(RepeatTask::with_first_delay(Duration::from_millis(*f as u64), Duration::from_millis(*period_ms as u64), t_repeat, args), delay)),
            Kind::Fut { polls } => THandle::Normal(sched.schedule(FutureTask::new(PendingK(*polls), t_fut, args), delay)),
            _ => unreachable!(),
          })
        })
        .collect()
    });
    let handles = Arc::new(Mutex::new(handles));
    let mut bodies: Vec<Body> = Vec::new();
    {
      let handles = handles.clone();
      let logs = logs.clone();
      let cancels = case.cancels.clone();
      bodies.push(Box::new(move || {
        for c in &cancels {
          harness_yield("before-cancel");
          let (k, h) = {
            let mut hs = handles.lock().unwrap();
            let k = *c % hs.len();
            (k, hs[k].take())
          };
          if let Some(h) = h {
            let sh = shared();
            let before = sh.stamp();
            match h {
              THandle::Normal(h) => h.unsubscribe(),
              THandle::Sub(h) => h.unsubscribe(),
            }
            let after = sh.stamp();
            logs.lock().unwrap()[k].cancel = Some((before, after));
          }
        }
      }));
    }
    let rep = ts.run(bodies);
    // everything has settled: a cancelled subscribing task must not have left its
    // subscription behind
    if rep.deadlock.is_none() && rep.panics.is_empty() && !rep.budget_overrun {
      subject.next(77);
    }
    let site = "scheduler(threads)".to_string();
    let mut violation = None;
    if let Some(d) = &rep.deadlock {
      violation = Some(Violation { rule: "c19.deadlock".into(), site: site.clone(), detail: d.clone() });
    } else if rep.budget_overrun {
      violation = Some(Violation { rule: "c19.livelock".into(), site: site.clone(), detail: "step budget exhausted".into() });
    } else if let Some((t, m)) = rep.panics.first() {
      violation = Some(Violation { rule: "c19.panic".into(), site: site.clone(), detail: format!("thread {} panicked: {}", t, m) });
    } else {
      let l = logs.lock().unwrap();
      for (k, t) in l.iter().enumerate() {
        let spec = &case.tasks[k];
        let delay = (spec.delay_us.unwrap_or(0) as u64 * 1000).max(if let Kind::Repeat { first_ms: Some(f), .. } = spec.kind { f as u64 * MS } else { 0 });
        if !matches!(spec.kind, Kind::Repeat { .. }) && t.runs.len() > 1 {
          violation = Some(Violation { rule: "c19.more-than-once".into(), site: site.clone(), detail: format!("task {} ran {} times", k, t.runs.len()) });
        }
        for (i, r) in t.runs.iter().enumerate() {
          if r.2 != i {
            violation = Some(Violation { rule: "c19.repeat-seq".into(), site: site.clone(), detail: format!("task {} run #{} had seq {}", k, i, r.2) });
          }
          let min = if i == 0 { delay } else { t.runs[i - 1].3 + if let Kind::Repeat { period_ms, .. } = spec.kind { period_ms as u64 * MS } else { 0 } };
          if r.3 < min {
            violation = Some(Violation { rule: "c19.early".into(), site: site.clone(), detail: format!("task {} run #{} at {}ns, earliest allowed {}ns", k, i, r.3, min) });
          }
        }
        if let Some((_, after)) = t.cancel {
          if let Some(r) = t.runs.iter().find(|r| r.0 > after) {
            violation = Some(Violation { rule: "c19.run-after-cancel".into(), site: site.clone(), detail: format!("task {} body started at stamp {} after unsubscribe() had returned at stamp {}", k, r.0, after) });
          } else if !probes[k].events().is_empty() {
            violation = Some(Violation { rule: "c19.delivery-after-cancel".into(), site: site.clone(), detail: format!("task {}: its handle was unsubscribed (returned at stamp {}), yet the subscription the task produced is still delivering: {:?}", k, after, probes[k].events()) });
          } else if let Some(r) = t.runs.iter().find(|r| r.0 < after && r.1 > after) {
            violation = Some(Violation { rule: "c19.running-after-cancel".into(), site: site.clone(), detail: format!("task {} body was still running (stamps {}..{}) when unsubscribe() returned at stamp {}", k, r.0, r.1, after) });
          }
        }
      }
    }
    let summary = logs.lock().unwrap().iter().enumerate().map(|(k, t)| format!("t{}:{:?} runs={} cancel={:?}", k, case.tasks[k].kind, t.runs.len(), t.cancel.is_some())).collect::<Vec<_>>().join("; ");
    let mut h = rep.trace_hash;
    for t in logs.lock().unwrap().iter() {
      h = hash_mix(h, t.runs.len() as u64 * 7 + t.cancel.is_some() as u64);
    }
    let mut resolved = case.clone();
    resolved.sched = SchedSpec::Explicit(rep.decisions.clone());
    let sim = shr.now();
    drop(handles);
    drop(w);
    Ok(Outcome {
      violation,
      trace_hash: h,
      nontrivial: rep.multi_choice > 0,
      sim_ns: sim,
      steps: rep.steps,
      faults: vec![("cancel_racing_worker_poll", case.cancels.len() as u64), ("preemption", rep.preemptions), ("lock_contention", rep.contentions)],
      reach: vec![("try_lock_contention_observed", (rep.contentions > 0) as u64)],
      resolved: Some(serde_json::to_value(resolved).unwrap()),
      sample: format!("workers={} cancels={:?} decisions={} => {}", case.workers, case.cancels, rep.decisions.len(), summary),
    })
  }
}
