//! C14 — conversions (to_future, to_stream, collect) and complete_status report
//! the real outcome and never hang.
//! DES: event scripts delivered before / between / after polls.
//! Threads: producer vs `wait_for_end` (and a parked `to_future` waiter) under
//! lock-level + check/register-window schedules; the deadlock detector is the
//! liveness oracle.

use crate::framework::*;
use crate::probe::*;
use crate::rng::Rng;
use crate::threadsim::*;
use crate::world::*;
use futures::{Future, Stream};
use rxrust::ops::complete_status::CompleteStatus;
use rxrust::ops::future::ObservableError;
use rxrust::prelude::*;
use serde::{Deserialize, Serialize};
use serde_json::Value;
use std::pin::Pin;
use std::sync::atomic::Ordering::SeqCst;
use std::sync::{Arc, Mutex};
use std::task::{Context, Poll, Waker};

#[derive(Clone, Debug, Serialize, Deserialize, PartialEq)]
pub enum Target {
  ToFuture,
  ToStream,
  CollectFuture,
  Status,
}

#[derive(Clone, Debug, Serialize, Deserialize, PartialEq)]
pub enum Act {
  Next,
  Error,
  Complete,
  Poll,
  /// fault: the consumer goes away - the future / stream is dropped (for a
  /// conversion that is the only way to cancel); the source carries on
  DropConsumer,
  /// the owner of the subject prunes it (`Subject::retain`): subscribers that
  /// report themselves finished are dropped without a terminal - a conversion
  /// that is still waiting for the source's terminal must not be one of them
  Retain,
}

#[derive(Clone, Debug, Serialize, Deserialize)]
pub struct Case {
  target: Target,
  threads_flavour: bool,
  acts: Vec<Act>,
  /// Status target: k > 0 puts a `take(k)` between `complete_status()` and the
  /// subscriber, so the downstream may end before the source does - the status
  /// is still about the source
  #[serde(default)]
  status_take: usize,
  /// Status target: an operator above `complete_status()` whose output
  /// terminates exactly when the subject does (0 none, 1 collect, 2 last,
  /// 3 reduce, 4 buffer_with_count(2), 5 take_last(1), 6 map) - the status's
  /// source is that operator's output
  #[serde(default)]
  status_pre: u8,
}

pub struct C14Des;

fn fmt_fut(r: &Result<Result<Val, E>, ObservableError>) -> String {
  match r {
    Ok(Ok(v)) => format!("Item({})", fmt_val(v)),
    Ok(Err(e)) => format!("SourceError({})", e),
    Err(ObservableError::Empty) => "Empty".into(),
    Err(ObservableError::MultipleValues) => "MultipleValues".into(),
  }
}

enum Tgt {
  Dropped,
  Fut(Pin<Box<dyn Future<Output = Result<Result<Val, E>, ObservableError>>>>),
  Stream(Pin<Box<dyn Stream<Item = Result<Val, E>>>>),
  Status(Arc<CompleteStatus>, Arc<ProbeLog>),
}

impl Scenario for C14Des {
  fn name(&self) -> &'static str {
    "c14.des"
  }
  fn weight(&self) -> usize {
    2
  }
  fn components(&self) -> (&'static [&'static str], &'static [&'static str]) {
    (&["ops/future.rs", "ops/stream.rs", "ops/collect.rs", "ops/complete_status.rs", "futures mpsc channel (real)", "Subject/SubjectThreads"], &["waker (counting flag)"])
  }
  fn generate(&self, rng: &mut Rng, _tier: Tier) -> Value {
    let target = match rng.below(4) {
      0 => Target::ToFuture,
      1 => Target::ToStream,
      2 => Target::CollectFuture,
      _ => Target::Status,
    };
    let items = rng.below(4);
    let mut acts = Vec::new();
    for _ in 0..items {
      while rng.chance(1, 3) {
        acts.push(Act::Poll);
      }
      acts.push(Act::Next);
    }
    while rng.chance(1, 3) {
      acts.push(Act::Poll);
    }
    match rng.below(5) {
      0 | 1 => acts.push(Act::Complete),
      2 | 3 => acts.push(Act::Error),
      _ => {}
    }
    // faults: events after the terminal, second terminal
    while rng.chance(1, 4) {
      acts.push(match rng.below(4) {
        0 => Act::Next,
        1 => Act::Error,
        2 => Act::Complete,
        _ => Act::Poll,
      });
    }
    while rng.chance(1, 2) {
      acts.push(Act::Poll);
    }
    if target != Target::Status && rng.chance(1, 6) {
      let at = rng.below(acts.len() + 1);
      acts.insert(at, Act::DropConsumer);
    }
    if target != Target::Status {
      while rng.chance(1, 4) {
        let at = rng.below(acts.len() + 1);
        acts.insert(at, Act::Retain);
      }
    }
    let status_take = if target == Target::Status && rng.chance(1, 3) { rng.range(1, 2) } else { 0 };
    let status_pre = if target == Target::Status && rng.chance(1, 2) { rng.range(1, 6) as u8 } else { 0 };
    serde_json::to_value(Case { target, threads_flavour: rng.chance(1, 3), acts, status_take, status_pre }).unwrap()
  }

  fn run(&self, case: &Value) -> Result<Outcome, String> {
    let case: Case = serde_json::from_value(case.clone()).map_err(|e| e.to_string())?;
    let w = World::new();
    // sources: one handle kept per potential terminal (subjects are consumed by terminals)
    let mut local = Subject::<'static, Val, E>::default();
    let mut shared_s = SubjectThreads::<Val, E>::default();
    macro_rules! status_tgt {
      ($src:expr) => {{
        let l = ProbeLog::new(false);
        macro_rules! fin {
          ($o:expr) => {{
            let (o, st) = $o.complete_status();
            if case.status_take > 0 {
              o.take(case.status_take).actual_subscribe(Probe(l.clone()));
            } else {
              o.actual_subscribe(Probe(l.clone()));
            }
            st
          }};
        }
        let st = match case.status_pre {
          0 => fin!($src),
          1 => fin!($src.collect::<Vec<Val>>().map(Val::L)),
          2 => fin!($src.last()),
          3 => fin!($src.reduce(|a: Val, v: Val| a + v)),
          4 => fin!($src.buffer_with_count(2).map(Val::L)),
          5 => fin!($src.take_last(1)),
          _ => fin!($src.map(|v: Val| v)),
        };
        Tgt::Status(st, l)
      }};
    }
    let mut tgt = match (&case.target, case.threads_flavour) {
      (Target::ToFuture, false) => Tgt::Fut(Box::pin(local.clone().to_future())),
      (Target::ToFuture, true) => Tgt::Fut(Box::pin(shared_s.clone().to_future())),
      (Target::ToStream, false) => Tgt::Stream(Box::pin(local.clone().to_stream())),
      (Target::ToStream, true) => Tgt::Stream(Box::pin(shared_s.clone().to_stream())),
      (Target::CollectFuture, false) => {
        Tgt::Fut(Box::pin(local.clone().collect::<Vec<Val>>().map(|v| Val::L(v)).to_future()))
      }
      (Target::CollectFuture, true) => {
        Tgt::Fut(Box::pin(shared_s.clone().collect::<Vec<Val>>().map(|v| Val::L(v)).to_future()))
      }
      (Target::Status, false) => status_tgt!(local.clone()),
      (Target::Status, true) => status_tgt!(shared_s.clone()),
    };
    let flag = Arc::new(FlagWaker(std::sync::atomic::AtomicBool::new(false)));
    let waker = Waker::from(flag.clone());
    if case.status_take > 8 || case.status_pre > 6 || ((case.status_take > 0 || case.status_pre > 0) && case.target != Target::Status) {
      return Err("bad shape".into());
    }
    let site = format!("{}{:?}{}", ["", "collect+", "last+", "reduce+", "buffer_with_count+", "take_last+", "map+"][case.status_pre.min(6) as usize], case.target, if case.status_take > 0 { "+take" } else { "" });
    let mut items: Vec<Val> = Vec::new();
    let mut terminal: Option<Ev> = None; // the first terminal
    let mut queue: std::collections::VecDeque<Ev> = Default::default(); // for streams
    let mut pending_registered = false;
    let mut done = false; // future resolved / stream ended
    let mut dropped = false; // the consumer was dropped (fault)
    let mut violation: Option<Violation> = None;
    let mut trace = String::new();
    let mut post_terminal = 0u64;
    let mut polls_pending = 0u64;
    let mut next_v = 0i64;
    let mut v = |rule: &str, detail: String, violation: &mut Option<Violation>| {
      if violation.is_none() {
        *violation = Some(Violation { rule: rule.into(), site: site.clone(), detail });
      }
    };
    let mut acts = case.acts.clone();
    // quiescence: two more polls after the script
    acts.push(Act::Poll);
    acts.push(Act::Poll);
    for a in &acts {
      match a {
        Act::Next => {
          next_v += 1;
          let val = Val::I(next_v);
          if terminal.is_some() {
            post_terminal += 1;
          } else {
            items.push(val.clone());
            queue.push_back(Ev::Next(val.clone()));
          }
          trace.push_str(&format!("n{} ", next_v));
          let r = std::panic::catch_unwind(std::panic::AssertUnwindSafe(|| {
            if case.threads_flavour {
              shared_s.next(val)
            } else {
              local.next(val)
            }
          }));
          if let Err(p) = r {
            v("c14.panic", format!("`{}`: the source's next() panicked{}: {}", trace.trim(), if dropped { " after the consumer had been dropped" } else { "" }, panic_message(&*p)), &mut violation);
            break;
          }
        }
        Act::Retain => {
          if matches!(tgt, Tgt::Status(..)) {
            continue;
          }
          if case.threads_flavour {
            shared_s.retain()
          } else {
            local.retain()
          }
          trace.push_str("retain ");
        }
        Act::DropConsumer => {
          if !dropped && !matches!(tgt, Tgt::Status(..)) {
            tgt = Tgt::Dropped;
            dropped = true;
            done = true;
            trace.push_str("drop-consumer ");
          }
        }
        Act::Error | Act::Complete => {
          let ev = if *a == Act::Error { Ev::Err(3) } else { Ev::Complete };
          if terminal.is_some() {
            post_terminal += 1;
          } else {
            terminal = Some(ev.clone());
            queue.push_back(ev.clone());
          }
          trace.push_str(if *a == Act::Error { "err " } else { "complete " });
          let r = std::panic::catch_unwind(std::panic::AssertUnwindSafe(|| match (&ev, case.threads_flavour) {
            (Ev::Err(e), false) => local.clone().error(*e),
            (Ev::Err(e), true) => shared_s.clone().error(*e),
            (_, false) => local.clone().complete(),
            (_, true) => shared_s.clone().complete(),
          }));
          if let Err(p) = r {
            v("c14.panic", format!("`{}`: the source's terminal panicked{}: {}", trace.trim(), if dropped { " after the consumer had been dropped" } else { "" }, panic_message(&*p)), &mut violation);
            break;
          }
          // a waiter that is parked must be woken by the terminal
          if pending_registered && !done && !matches!(tgt, Tgt::Status(..)) && !flag.0.load(SeqCst) && post_terminal == 0 {
            v("c14.no-wake-on-terminal", format!("`{}`: the future/stream was pending with a registered waker; the source terminated but the waker was not woken", trace.trim()), &mut violation);
          }
        }
        Act::Poll => {
          if done {
            continue;
          }
          let mut cx = Context::from_waker(&waker);
          match &mut tgt {
            Tgt::Fut(f) => {
              flag.0.store(false, SeqCst);
              let r = f.as_mut().poll(&mut cx);
              match r {
                Poll::Pending => {
                  polls_pending += 1;
                  pending_registered = true;
                  trace.push_str("poll=Pending ");
                  if terminal.is_some() {
                    v("c14.pending-after-terminal", format!("`{}`: source terminated with {:?} but the future stays Pending (nothing is left to wake it)", trace.trim(), terminal), &mut violation);
                    done = true;
                  }
                }
                Poll::Ready(r) => {
                  done = true;
                  pending_registered = false;
                  trace.push_str(&format!("poll=Ready({}) ", fmt_fut(&r)));
                  let ok = match (&terminal, &case.target) {
                    (None, _) => false,
                    (Some(Ev::Complete), Target::CollectFuture) => matches!(&r, Ok(Ok(Val::L(l))) if *l == items),
                    (Some(Ev::Complete), _) => match items.len() {
                      0 => matches!(r, Err(ObservableError::Empty)),
                      1 => matches!(&r, Ok(Ok(x)) if *x == items[0]),
                      _ => matches!(r, Err(ObservableError::MultipleValues)),
                    },
                    (Some(Ev::Err(e)), Target::CollectFuture) => matches!(&r, Ok(Err(x)) if x == e),
                    (Some(Ev::Err(e)), _) => {
                      // one item and then a failure is not "more than one value":
                      // the source's error is the outcome; with >= 2 items either
                      // answer is defensible
                      matches!(&r, Ok(Err(x)) if x == e) || (items.len() >= 2 && matches!(r, Err(ObservableError::MultipleValues)))
                    }
                    _ => false,
                  };
                  if !ok {
                    v("c14.wrong-outcome", format!("`{}`: items={:?} terminal={:?} but the future resolved to {}", trace.trim(), items.iter().map(fmt_val).collect::<Vec<_>>(), terminal, fmt_fut(&r)), &mut violation);
                  }
                }
              }
            }
            Tgt::Stream(s) => {
              flag.0.store(false, SeqCst);
              let r = s.as_mut().poll_next(&mut cx);
              match r {
                Poll::Pending => {
                  polls_pending += 1;
                  pending_registered = true;
                  trace.push_str("poll=Pending ");
                  if !queue.is_empty() || terminal.is_some() {
                    v("c14.pending-after-terminal", format!("`{}`: undelivered events {:?} / terminal {:?} but the stream is Pending", trace.trim(), queue, terminal), &mut violation);
                    done = true;
                  }
                }
                Poll::Ready(x) => {
                  pending_registered = false;
                  let got = match &x {
                    Some(Ok(v)) => Some(Ev::Next(v.clone())),
                    Some(Err(e)) => Some(Ev::Err(*e)),
                    None => None,
                  };
                  trace.push_str(&format!("poll={} ", got.as_ref().map_or("End".to_string(), fmt_ev)));
                  let expect = match queue.pop_front() {
                    Some(Ev::Complete) => None,
                    Some(e) => Some(e),
                    None => {
                      // empty queue: only legal after an error was consumed
                      if matches!(terminal, Some(Ev::Err(_))) {
                        None
                      } else {
                        Some(Ev::Next(Val::I(-999)))
                      }
                    }
                  };
                  if got != expect {
                    v("c14.wrong-outcome", format!("`{}`: stream yielded {:?}, expected {:?}", trace.trim(), got, expect), &mut violation);
                  }
                  if got.is_none() {
                    done = true;
                  }
                }
              }
            }
            Tgt::Status(..) | Tgt::Dropped => {}
          }
        }
      }
      if let Tgt::Status(st, _) = &tgt {
        let (c, ok, er) = (st.is_closed(), st.is_completed(), st.error_occur());
        let want = match &terminal {
          None => (false, false, false),
          Some(Ev::Complete) => (true, true, false),
          Some(_) => (true, false, true),
        };
        if (c, ok, er) != want {
          v("c14.status", format!("`{}`: is_closed/is_completed/error_occur = {:?}, expected {:?}", trace.trim(), (c, ok, er), want), &mut violation);
        }
      }
    }
    if let Tgt::Status(st, _) = &tgt {
      if terminal.is_some() {
        // wait_for_end must return at once (single thread: it would hang otherwise)
        let r = std::panic::catch_unwind(std::panic::AssertUnwindSafe(|| CompleteStatus::wait_for_end(st.clone())));
        if r.is_err() {
          v("c14.wait-for-end-hangs", format!("`{}`: wait_for_end would block although the source has terminated", trace.trim()), &mut violation);
        }
      }
    }
    let h = hash_str(&trace);
    drop(tgt);
    let sim_end = w.now();
    drop(w);
    Ok(Outcome {
      violation,
      trace_hash: h,
      nontrivial: polls_pending > 0 || post_terminal > 0 || matches!(terminal, Some(Ev::Err(_))),
      sim_ns: sim_end,
      steps: acts.len() as u64,
      faults: vec![
        ("event_after_terminal", post_terminal),
        ("poll_before_terminal(pending)", polls_pending),
        ("source_error", matches!(terminal, Some(Ev::Err(_))) as u64),
        ("source_never_terminates", terminal.is_none() as u64),
        ("consumer_dropped_while_the_source_carries_on", dropped as u64),
      ],
      reach: vec![],
      resolved: None,
      sample: format!("{}{}: {}", site, if case.threads_flavour { "/threads" } else { "" }, trace.trim()),
    })
  }
}

// ------------------------------------------------------------------- threads

#[derive(Clone, Debug, Serialize, Deserialize)]
pub struct TCase {
  /// what the waiter does
  waiter: TWaiter,
  items: usize,
  /// 0 none, 1 complete, 2 error
  terminal: u8,
  /// the downstream below complete_status takes a while in its callbacks
  /// (a scheduling point inside them)
  #[serde(default)]
  slow_handler: bool,
  sched: SchedSpec,
}

#[derive(Clone, Debug, Serialize, Deserialize, PartialEq)]
pub enum TWaiter {
  WaitForEnd,
  BlockOnFuture,
  BlockOnStream,
}

pub struct C14Threads;

impl Scenario for C14Threads {
  fn name(&self) -> &'static str {
    "c14.threads"
  }
  fn weight(&self) -> usize {
    1
  }
  fn components(&self) -> (&'static [&'static str], &'static [&'static str]) {
    (&["CompleteStatus::wait_for_end / StatusFuture::poll (with the check/register yield point)", "AtomicWaker (real)", "SubjectThreads"], &["thread parking in block_on (simulated)", "OS thread scheduling (baton)"])
  }
  fn generate(&self, rng: &mut Rng, _tier: Tier) -> Value {
    let waiter = match rng.below(4) {
      0 | 1 => TWaiter::WaitForEnd,
      2 => TWaiter::BlockOnFuture,
      _ => TWaiter::BlockOnStream,
    };
    let strategy = match rng.below(3) {
      0 => Strategy::Random,
      1 => Strategy::Seq { den: 3 },
      _ => Strategy::Pct { d: rng.range(1, 3) as u8, k: 30 },
    };
    serde_json::to_value(TCase {
      waiter,
      items: rng.below(3),
      terminal: rng.range(1, 2) as u8,
      slow_handler: rng.below(2) == 0,
      sched: SchedSpec::Seeded { seed: rng.next_u64(), strategy },
    })
    .unwrap()
  }
  fn run(&self, case: &Value) -> Result<Outcome, String> {
    let case: TCase = serde_json::from_value(case.clone()).map_err(|e| e.to_string())?;
    if case.items > 6 {
      return Err("too many items".into());
    }
    if case.terminal != 1 && case.terminal != 2 {
      // a producer that never terminates leaves the waiter blocked rightly
      return Err("the producer must terminate".into());
    }
    let shr = Shared::new();
    let w = World::with_shared(shr.clone());
    let subject = SubjectThreads::<Val, E>::default();
    let result: Arc<Mutex<Vec<String>>> = Arc::new(Mutex::new(Vec::new()));
    let ts = TSim::new(shr.clone(), &case.sched, 2, 0, 5_000);
    let mut bodies: Vec<Body> = Vec::new();
    // waiter
    {
      let result = result.clone();
      match case.waiter {
        TWaiter::WaitForEnd => {
          let (o, st) = subject.clone().complete_status();
          o.actual_subscribe(Probe(ProbeLog::new(case.slow_handler)));
          bodies.push(Box::new(move || {
            CompleteStatus::wait_for_end(st.clone());
            result.lock().unwrap().push(format!("returned closed={}", st.is_closed()));
          }));
        }
        TWaiter::BlockOnFuture => {
          let fut = subject.clone().to_future();
          let fut = crate::props::c06::AssertSend(fut);
          bodies.push(Box::new(move || {
            let mut fut = fut;
            let mut out = None;
            if let Some(Ctx { mode: Mode::Thread(ts, tid), .. }) = ctx() {
              ts.block_on(tid, &mut |cx| match Pin::new(&mut fut.0).poll(cx) {
                Poll::Ready(r) => {
                  out = Some(r);
                  true
                }
                Poll::Pending => {
                  harness_yield("after-pending-poll");
                  false
                }
              });
            }
            result.lock().unwrap().push(out.map_or("none".into(), |r| fmt_fut(&r)));
          }));
        }
        TWaiter::BlockOnStream => {
          let st = crate::props::c06::AssertSend(subject.clone().to_stream());
          bodies.push(Box::new(move || {
            let mut st = st;
            loop {
              let mut out = None;
              if let Some(Ctx { mode: Mode::Thread(ts, tid), .. }) = ctx() {
                ts.block_on(tid, &mut |cx| match Pin::new(&mut st.0).poll_next(cx) {
                  Poll::Ready(r) => {
                    out = Some(r);
                    true
                  }
                  Poll::Pending => {
                    harness_yield("after-pending-poll");
                    false
                  }
                });
              }
              match out {
                Some(Some(Ok(v))) => result.lock().unwrap().push(format!("N{}", fmt_val(&v))),
                Some(Some(Err(e))) => result.lock().unwrap().push(format!("E{}", e)),
                _ => {
                  result.lock().unwrap().push("End".into());
                  break;
                }
              }
            }
          }));
        }
      }
    }
    // producer
    {
      let mut s = subject.clone();
      let items = case.items;
      let terminal = case.terminal;
      bodies.push(Box::new(move || {
        for i in 0..items {
          s.next(Val::I(i as i64 + 1));
          harness_yield("between-items");
        }
        match terminal {
          1 => s.complete(),
          2 => s.error(3),
          _ => {}
        }
      }));
    }
    let rep = ts.run(bodies);
    let res = result.lock().unwrap().clone();
    let site = format!("{:?}", case.waiter);
    let mut violation = None;
    if let Some(d) = &rep.deadlock {
      violation = Some(Violation {
        rule: "c14.waiter-never-woken".into(),
        site: site.clone(),
        detail: format!("producer finished (items={}, terminal={}) but the waiter stays blocked: {}", case.items, case.terminal, d),
      });
    } else if rep.budget_overrun {
      violation = Some(Violation { rule: "c14.livelock".into(), site: site.clone(), detail: "step budget exhausted".into() });
    } else if let Some((t, m)) = rep.panics.first() {
      violation = Some(Violation { rule: "c14.panic".into(), site: site.clone(), detail: format!("thread {} panicked: {}", t, m) });
    } else {
      // outcome check
      let expected: Vec<String> = match case.waiter {
        TWaiter::WaitForEnd => vec!["returned closed=true".into()],
        TWaiter::BlockOnFuture => vec![match (case.items, case.terminal) {
          (_, 2) => "SourceError(3)".to_string(),
          (0, _) => "Empty".to_string(),
          (1, _) => "Item(1)".to_string(),
          _ => "MultipleValues".to_string(),
        }],
        TWaiter::BlockOnStream => {
          let mut v: Vec<String> = (1..=case.items).map(|i| format!("N{}", i)).collect();
          if case.terminal == 2 {
            v.push("E3".into());
          }
          v.push("End".into());
          v
        }
      };
      let ok = res == expected
        || (case.waiter == TWaiter::BlockOnFuture && case.terminal == 2 && case.items >= 2 && res == vec!["MultipleValues".to_string()]);
      if !ok {
        violation = Some(Violation { rule: "c14.wrong-outcome".into(), site: site.clone(), detail: format!("waiter observed {:?}, expected {:?}", res, expected) });
      }
    }
    let mut resolved = case.clone();
    resolved.sched = SchedSpec::Explicit(rep.decisions.clone());
    drop(subject);
    drop(w);
    Ok(Outcome {
      violation,
      trace_hash: hash_mix(rep.trace_hash, hash_str(&res.join(","))),
      nontrivial: rep.multi_choice > 0,
      sim_ns: 0,
      steps: rep.steps,
      faults: vec![("preemption", rep.preemptions), ("waiter_in_check_register_window", rep.window_hits), ("slow_downstream_handler", (case.slow_handler && case.waiter == TWaiter::WaitForEnd) as u64)],
      reach: vec![("waiter_passed_check_before_register", (rep.window_hits > 0) as u64)],
      resolved: Some(serde_json::to_value(resolved).unwrap()),
      sample: format!("{:?} items={} terminal={} slow_handler={} decisions={:?} => {:?}", case.waiter, case.items, case.terminal, case.slow_handler, rep.decisions, res),
    })
  }
}

pub fn check_def() -> PropertyCheck {
  PropertyCheck {
    id: "C14",
    scenarios: vec![Box::new(C14Des), Box::new(C14Threads)],
    runs: (300_000, 16_000_000),
    rule: "DES case = target (to_future, to_stream, collect.to_future, complete_status - optionally with collect / last / reduce / buffer_with_count / take_last / map above it and take(k) below it) x flavour x script of next/error/complete/poll incl. events after the terminal, the consumer dropped (fault) and the subject pruned with retain(); thread case = waiter (wait_for_end | parked to_future | parked to_stream) vs producer (0-2 items then complete/error; the downstream handler optionally contains a scheduling point) under a seeded schedule over lock points and the StatusFuture check/register window; non-trivial = a poll returned Pending before the terminal, an event followed the terminal, the source failed (DES) / a decision had >1 eligible thread (threads)",
    assumptions: vec![
      "futures' mpsc channel and AtomicWaker operations are atomic simulator steps (only one simulated thread runs at a time)",
      "relaxed atomics in CompleteStatus are executed sequentially consistent",
    ],
  }
}
