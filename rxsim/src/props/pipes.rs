//! C01, C02, C17, C18 over generated pipelines (see ast.rs / pipe.rs).

use crate::ast::*;
use crate::framework::*;
use crate::pipe::*;
use crate::probe::*;
use crate::rng::Rng;
use rxrust::prelude::*;
use serde::{Deserialize, Serialize};
use serde_json::Value;

fn sample_of(case: &PCase, run: &PRun) -> String {
  format!(
    "{} {} {}{}{}: {} => [{}]{}",
    if case.threads_flavour { "threads" } else { "local" },
    if case.fifo { "fifo" } else { "any-ready" },
    match (case.sub_style, case.closure_subscriber) {
      (2, _) => "[on_complete.on_error.subscribe] ",
      (_, true) => "[on_error.on_complete.subscribe] ",
      _ => "",
    },
    if case.finish_after > 0 { format!("[subscriber has enough after {}] ", case.finish_after) } else { String::new() },
    serde_json::to_string(&case.root).unwrap_or_default(),
    run.trace.trim(),
    run.recs.iter().map(|r| fmt_ev(&r.ev)).collect::<Vec<_>>().join(" "),
    run.panic.as_ref().map_or(String::new(), |p| format!(" PANIC {}", p))
  )
}

fn hash_run(run: &PRun) -> u64 {
  let mut h = hash_str(&run.trace);
  for r in &run.recs {
    h = hash_mix(h, hash_str(&fmt_ev(&r.ev)) ^ r.t);
  }
  for (_, c) in &run.closed {
    h = hash_mix(h, *c as u64);
  }
  h
}

fn outcome(case: &PCase, run: &PRun, violation: Option<Violation>, nontrivial: bool, extra_faults: Vec<(&'static str, u64)>, reach: Vec<(&'static str, u64)>) -> Outcome {
  let mut faults = vec![
    ("event_after_input_terminal", run.post_terminal_inputs),
    ("several_inputs_terminated", (run.inputs_terminated_total >= 2) as u64),
    ("task_reorder(>=2 ready, any-ready policy)", if case.fifo { 0 } else { run.multi_ready }),
    ("clock_jump_over_2_deadlines", run.clock_jumps),
    ("subscribed_after_an_input_had_terminated", run.late_subscribe_after_input_terminal as u64),
  ];
  faults.extend(extra_faults);
  Outcome {
    violation,
    trace_hash: hash_run(run),
    nontrivial,
    sim_ns: run.sim_ns,
    steps: case.acts.len() as u64,
    faults,
    reach,
    resolved: None,
    sample: sample_of(case, run),
  }
}

fn site_of(case: &PCase) -> String {
  format!("{} [{}]", case.root.op_names().join("+"), if case.fifo { "fifo" } else { "any-ready" })
}

fn gen_case(rng: &mut Rng, tier: Tier, sched_weight: usize, cut: (usize, usize), exclude: Vec<&'static str>) -> PCase {
  let n_hot = rng.range(1, 3);
  let cfg = GenCfg { max_depth: if tier == Tier::Quick { 3 } else { 5 }, n_hot, sched_weight, exclude, allow_flat: true, producer_leaves: false };
  let root = loop {
    let r = gen_node(rng, &cfg, 0);
    if r.valid(0) && r.size() <= 30 {
      break r;
    }
  };
  let uses = root.uses_scheduler();
  let acts = gen_script(rng, n_hot, uses, &ScriptCfg { len: (3, 28), cut, post_terminal: true });
  {
    let sub_at = if rng.chance(1, 4) { rng.below(acts.len().max(1)) } else { 0 };
    let style = rng.below(6);
    let finish_after = if rng.chance(1, 5) { rng.range(1, 3) } else { 0 };
    PCase { threads_flavour: rng.chance(1, 2), fifo: rng.chance(1, 2), n_hot, root, acts, sub_at, closure_subscriber: style == 1, sub_style: if style == 2 { 2 } else { 0 }, finish_after, panic_at: 0, guard_unwinds: false }
  }
}

// ------------------------------------------------------------------------ C01

pub struct C01;
impl Scenario for C01 {
  fn name(&self) -> &'static str {
    "c01.pipelines"
  }
  fn components(&self) -> (&'static [&'static str], &'static [&'static str]) {
    (&["whole operator catalogue through box_it (ast.rs): ~60 unary, 8 binary, merge_all/flatten, group_by, defer, subjects, interval(_at)/timer(_at)/from_future(_result)/from_stream(_result)/of_*/repeat/never sources"], &["executor, timer, clock (sim)"])
  }
  fn generate(&self, rng: &mut Rng, tier: Tier) -> Value {
    serde_json::to_value(gen_case(rng, tier, 1, (0, 1), vec![])).unwrap()
  }
  fn run(&self, case: &Value) -> Result<Outcome, String> {
    let case: PCase = serde_json::from_value(case.clone()).map_err(|e| e.to_string())?;
    let run = run_pipeline(&case)?;
    let evs: Vec<Ev> = run.recs.iter().map(|r| r.ev.clone()).collect();
    let mut violation = None;
    if let Some(i) = grammar_violation(&evs) {
      violation = Some(Violation {
        rule: "c01.grammar".into(),
        site: site_of(&case),
        detail: format!("`{}`: notification #{} ({}) was delivered after the terminal: [{}]", run.trace.trim(), i, fmt_ev(&evs[i]), fmt_trace(&evs)),
      });
    } else if let Some(p) = &run.panic {
      violation = Some(Violation { rule: "c01.panic".into(), site: site_of(&case), detail: p.clone() });
    }
    let nt = run.post_terminal_inputs > 0 || run.inputs_terminated_total >= 2 || run.multi_ready > 0;
    Ok(outcome(&case, &run, violation, nt, vec![], vec![("post_terminal_event_reached_pipeline", run.post_terminal_inputs)]))
  }
}

// ------------------------------------------------------------------------ C02

pub struct C02;
impl Scenario for C02 {
  fn name(&self) -> &'static str {
    "c02.pipelines"
  }
  fn weight(&self) -> usize {
    4
  }
  fn components(&self) -> (&'static [&'static str], &'static [&'static str]) {
    (&["operator catalogue (scheduler-using operators over-weighted)", "subscription.rs (ZipSubscription, MultiSubscription, guards)", "scheduler.rs TaskHandle cancellation"], &["executor, timer, clock (sim)"])
  }
  fn generate(&self, rng: &mut Rng, tier: Tier) -> Value {
    let mut c = gen_case(rng, tier, 3, (1, 1), vec![]);
    // drawn last: the rest of the case is what it was without this fault
    c.guard_unwinds = rng.chance(1, 3);
    serde_json::to_value(c).unwrap()
  }
  fn run(&self, case: &Value) -> Result<Outcome, String> {
    let case: PCase = serde_json::from_value(case.clone()).map_err(|e| e.to_string())?;
    let run = run_pipeline(&case)?;
    let mut violation = None;
    if let Some((_, after)) = run.cut {
      if let Some(r) = run.recs.iter().find(|r| r.seq > after) {
        violation = Some(Violation {
          rule: "c02.delivery-after-unsubscribe".into(),
          site: site_of(&case),
          detail: format!("`{}`: {} was delivered at {}ms after {} had returned", run.trace.trim(), fmt_ev(&r.ev), r.t / crate::world::MS, if run.cut_via_guard { "the guard drop" } else { "unsubscribe()" }),
        });
      }
    }
    if violation.is_none() {
      if let Some(p) = &run.panic {
        violation = Some(Violation { rule: "c02.panic".into(), site: site_of(&case), detail: p.clone() });
      }
    }
    let nt = run.cut.is_some();
    Ok(outcome(
      &case,
      &run,
      violation,
      nt,
      vec![("unsubscribe_at_random_point", (run.cut.is_some() && !run.cut_via_guard) as u64), ("guard_drop_at_random_point", run.cut_via_guard as u64), ("guard_dropped_by_an_unwinding_owner", (run.cut_via_guard && case.guard_unwinds) as u64)],
      vec![("cut_with_pending_task_or_timer", run.cut_with_pending_tasks as u64)],
    ))
  }
}

// ------------------------------------------------------------------------ C17

pub struct C17;
impl Scenario for C17 {
  fn name(&self) -> &'static str {
    "c17.pipelines"
  }
  fn weight(&self) -> usize {
    3
  }
  fn components(&self) -> (&'static [&'static str], &'static [&'static str]) {
    (&["every Subscription impl reachable through the catalogue: (), Subscriber, ZipSubscription, MultiSubscription(Threads), TaskHandle, RefCountSubscription, FinalizerSubscription, BoxSubscription(Threads)"], &["executor, timer, clock (sim)"])
  }
  fn generate(&self, rng: &mut Rng, tier: Tier) -> Value {
    let mut c = gen_case(rng, tier, 2, (1, 3), vec![]);
    // fault, counted but not judged: the subscriber's callback panics once.
    // C17 quantifies over pipelines x input scripts, not over panicking
    // callbacks, and on the unchanged tree a subscribe that is cut short by a
    // panic (an inner observable of concat_all / merge_all that had attached
    // to a hot input before a synchronous item made the callback panic) leaves
    // that input attached while the handle answers closed
    if rng.chance(1, 12) {
      c.panic_at = rng.range(1, 3);
    }
    serde_json::to_value(c).unwrap()
  }
  fn run(&self, case: &Value) -> Result<Outcome, String> {
    let case: PCase = serde_json::from_value(case.clone()).map_err(|e| e.to_string())?;
    let run = run_pipeline_with_panics(&case)?;
    let mut violation = None;
    let first_true = run.closed.iter().find(|(_, c)| *c).map(|(s, _)| *s);
    if let Some(s) = first_true {
      if run.closed.iter().any(|(st, c)| *st > s && !*c) {
        violation = Some(Violation { rule: "c17.closed-then-open".into(), site: site_of(&case), detail: format!("`{}`: is_closed() returned true and later false", run.trace.trim()) });
      } else if let Some(r) = run.recs.iter().find(|r| r.seq > s) {
        violation = Some(Violation {
          rule: "c17.delivery-after-closed".into(),
          site: site_of(&case),
          detail: format!("`{}`: is_closed() returned true (stamp {}), yet {} was delivered later (stamp {})", run.trace.trim(), s, fmt_ev(&r.ev), r.seq),
        });
      }
    }
    if violation.is_none() {
      if let Some(p) = &run.panic {
        violation = Some(Violation { rule: "c17.panic".into(), site: site_of(&case), detail: p.clone() });
      }
    }
    let mut after_panic = 0u64;
    if case.panic_at > 0 {
      after_panic = violation.is_some() as u64;
      violation = None;
    }
    let closed_before_end = first_true.map_or(false, |s| run.closed.iter().any(|(st, _)| *st > s));
    Ok(outcome(&case, &run, violation, run.closed.len() >= 3, vec![("subscriber_callback_panics", (case.panic_at > 0 && run.recs.len() >= case.panic_at) as u64)], vec![("is_closed_true_sampled_before_the_end", closed_before_end as u64), ("is_closed_sampled_after_the_subscriber_panicked", (case.panic_at > 0 && run.recs.len() >= case.panic_at) as u64), ("info:closed_answer_contradicted_after_a_subscriber_panic(not judged)", after_panic)]))
  }
}

/// C17, second part: histories of append / unsubscribe / is_closed / clone on
/// composite subscriptions with scripted members.
#[derive(Clone, Debug, Serialize, Deserialize)]
pub enum MAct {
  Append,
  AppendClosed,
  CloseMember(usize),
  Unsub(usize),
  Sample(usize),
  CloneHandle(usize),
  Retain(usize),
  /// append a fresh, still empty composite to the composite (a handle to it is kept)
  Nest,
  /// append a member to nested composite k through the kept handle
  ChildAppend(usize),
  /// is_closed() of nested composite k
  ChildSample(usize),
}

#[derive(Clone, Debug, Serialize, Deserialize)]
pub struct MCase {
  threads_flavour: bool,
  acts: Vec<MAct>,
}

struct Member {
  closed: std::sync::Arc<std::sync::atomic::AtomicBool>,
  unsubscribed: std::sync::Arc<std::sync::atomic::AtomicU64>,
}
struct MemberSub {
  closed: std::sync::Arc<std::sync::atomic::AtomicBool>,
  unsubscribed: std::sync::Arc<std::sync::atomic::AtomicU64>,
}
impl Subscription for MemberSub {
  fn unsubscribe(self) {
    self.closed.store(true, std::sync::atomic::Ordering::SeqCst);
    self.unsubscribed.fetch_add(1, std::sync::atomic::Ordering::SeqCst);
  }
  fn is_closed(&self) -> bool {
    self.closed.load(std::sync::atomic::Ordering::SeqCst)
  }
}

/// C17, composite under threads: one or two threads append members while
/// another unsubscribes a clone of the composite.
#[derive(Clone, Debug, Serialize, Deserialize)]
pub struct MTCase {
  /// members appended by each appending thread
  appends: Vec<usize>,
  /// members in the composite before the threads start
  pre: usize,
  sched: crate::threadsim::SchedSpec,
}

pub struct C17MultiThreads;
impl Scenario for C17MultiThreads {
  fn name(&self) -> &'static str {
    "c17.composite-threads"
  }
  fn components(&self) -> (&'static [&'static str], &'static [&'static str]) {
    (&["MultiSubscriptionThreads append vs unsubscribe on clones (MutArc lock points interleaved)"], &["member subscriptions are harness stubs with counters", "OS thread scheduling (baton)"])
  }
  fn generate(&self, rng: &mut Rng, _tier: Tier) -> Value {
    use crate::threadsim::{SchedSpec, Strategy};
    let na = rng.range(1, 2);
    let appends = (0..na).map(|_| rng.range(1, 3)).collect();
    let strategy = match rng.below(3) {
      0 => Strategy::Random,
      1 => Strategy::Seq { den: 3 },
      _ => Strategy::Pct { d: rng.range(1, 3) as u8, k: 30 },
    };
    serde_json::to_value(MTCase { appends, pre: rng.below(3), sched: SchedSpec::Seeded { seed: rng.next_u64(), strategy } }).unwrap()
  }
  fn run(&self, case: &Value) -> Result<Outcome, String> {
    use crate::threadsim::*;
    use std::sync::atomic::Ordering::SeqCst;
    let case: MTCase = serde_json::from_value(case.clone()).map_err(|e| e.to_string())?;
    if case.appends.is_empty() || case.appends.len() > 3 || case.appends.iter().any(|n| *n == 0 || *n > 4) || case.pre > 4 {
      return Err("bad shape".into());
    }
    let shr = crate::world::Shared::new();
    let w = crate::world::World::with_shared(shr.clone());
    let mut composite = MultiSubscriptionThreads::default();
    let members: std::sync::Arc<std::sync::Mutex<Vec<(usize, Member)>>> = Default::default();
    for _ in 0..case.pre {
      let m = Member { closed: Default::default(), unsubscribed: Default::default() };
      composite.append(BoxSubscriptionThreads::new(MemberSub { closed: m.closed.clone(), unsubscribed: m.unsubscribed.clone() }));
      members.lock().unwrap().push((usize::MAX, m));
    }
    let ts = TSim::new(shr.clone(), &case.sched, case.appends.len() + 1, 0, 5_000);
    let mut bodies: Vec<Body> = Vec::new();
    for (t, n) in case.appends.iter().enumerate() {
      let mut c = composite.clone();
      let members = members.clone();
      let n = *n;
      bodies.push(Box::new(move || {
        for _ in 0..n {
          let m = Member { closed: Default::default(), unsubscribed: Default::default() };
          let sub = MemberSub { closed: m.closed.clone(), unsubscribed: m.unsubscribed.clone() };
          members.lock().unwrap().push((t, m));
          c.append(BoxSubscriptionThreads::new(sub));
          harness_yield("between-appends");
        }
      }));
    }
    {
      let c = composite.clone();
      bodies.push(Box::new(move || {
        c.unsubscribe();
      }));
    }
    let rep = ts.run(bodies);
    let site = "MultiSubscriptionThreads".to_string();
    let mut violation = None;
    if let Some(d) = &rep.deadlock {
      violation = Some(Violation { rule: "c17.deadlock".into(), site: site.clone(), detail: d.clone() });
    } else if rep.budget_overrun {
      violation = Some(Violation { rule: "c17.livelock".into(), site: site.clone(), detail: "step budget exhausted".into() });
    } else if let Some((t, m)) = rep.panics.first() {
      violation = Some(Violation { rule: "c17.panic".into(), site: site.clone(), detail: format!("thread {} panicked: {}", t, m) });
    } else {
      // every thread has returned: the composite is unsubscribed, so every member -
      // whether it was appended before, while or after - must have been torn down
      let ms = members.lock().unwrap();
      if let Some((i, (t, _))) = ms.iter().enumerate().find(|(_, (_, m))| !m.closed.load(SeqCst)) {
        violation = Some(Violation {
          rule: if *t == usize::MAX { "c17.member-left-running" } else { "c17.late-append-left-running" }.into(),
          site: site.clone(),
          detail: format!("unsubscribe() of the composite and all append() calls have returned, yet member {} ({}) is still running; is_closed() of the composite = {}", i, if *t == usize::MAX { "present from the start".to_string() } else { format!("appended by thread {}", t) }, composite.is_closed()),
        });
      } else if !composite.is_closed() {
        violation = Some(Violation { rule: "c17.clone-open-after-unsubscribe".into(), site: site.clone(), detail: "a clone was unsubscribed, this handle still reports open".into() });
      }
    }
    let mut resolved = case.clone();
    resolved.sched = SchedSpec::Explicit(rep.decisions.clone());
    let n_members = members.lock().unwrap().len();
    drop(composite);
    drop(w);
    Ok(Outcome {
      violation,
      trace_hash: hash_mix(rep.trace_hash, n_members as u64),
      nontrivial: rep.multi_choice > 0,
      sim_ns: 0,
      steps: rep.steps,
      faults: vec![("preemption_at_lock_point", rep.preemptions), ("lock_contention", rep.contentions)],
      reach: vec![("try_lock_contention_observed", (rep.contentions > 0) as u64)],
      resolved: Some(serde_json::to_value(resolved).unwrap()),
      sample: format!("appends={:?} pre={} decisions={}", case.appends, case.pre, rep.decisions.len()),
    })
  }
}

pub struct C17Multi;
impl Scenario for C17Multi {
  fn name(&self) -> &'static str {
    "c17.composite"
  }
  fn components(&self) -> (&'static [&'static str], &'static [&'static str]) {
    (&["MultiSubscription, MultiSubscriptionThreads (append, retain, unsubscribe, is_closed, clone)"], &["member subscriptions are harness stubs with counters"])
  }
  fn generate(&self, rng: &mut Rng, tier: Tier) -> Value {
    let mut acts = Vec::new();
    let deep = deepen(rng, tier);
    for _ in 0..rng.range(2, 10 * deep) {
      acts.push(match rng.weighted(&[5, 1, 2, 2, 4, 2, 1, 1, 2, 2]) {
        7 => MAct::Nest,
        8 => MAct::ChildAppend(rng.below(3)),
        9 => MAct::ChildSample(rng.below(3)),
        0 => MAct::Append,
        1 => MAct::AppendClosed,
        2 => MAct::CloseMember(rng.below(4)),
        3 => MAct::Unsub(rng.below(3)),
        4 => MAct::Sample(rng.below(3)),
        5 => MAct::CloneHandle(rng.below(3)),
        _ => MAct::Retain(rng.below(3)),
      });
    }
    serde_json::to_value(MCase { threads_flavour: rng.chance(1, 2), acts }).unwrap()
  }
  fn run(&self, case: &Value) -> Result<Outcome, String> {
    use std::sync::atomic::Ordering::SeqCst;
    let case: MCase = serde_json::from_value(case.clone()).map_err(|e| e.to_string())?;
    if case.acts.len() > 40 {
      return Err("too long".into());
    }
    let w = crate::world::World::new();
    let mut hl: Vec<Option<MultiSubscription<'static>>> = vec![Some(MultiSubscription::default())];
    let mut hs: Vec<Option<MultiSubscriptionThreads>> = vec![Some(MultiSubscriptionThreads::default())];
    let mut members: Vec<Member> = Vec::new();
    // nested composites: kept handles and (answered closed before, appended to since)
    let mut cl: Vec<MultiSubscription<'static>> = Vec::new();
    let mut cs: Vec<MultiSubscriptionThreads> = Vec::new();
    let mut cstate: Vec<(bool, bool)> = Vec::new();
    let mut unsubscribed = false;
    let mut twice = 0u64;
    let mut seen_closed = false;
    let mut appended_since_closed = false;
    let mut reopened: Option<Violation> = None;
    let mut late_appends = 0u64;
    let mut violation: Option<Violation> = None;
    let mut trace = String::new();
    let site = if case.threads_flavour { "MultiSubscriptionThreads" } else { "MultiSubscription" }.to_string();
    let live = |hl: &Vec<Option<MultiSubscription<'static>>>, hs: &Vec<Option<MultiSubscriptionThreads>>, t: bool| -> Vec<usize> {
      if t {
        (0..hs.len()).filter(|i| hs[*i].is_some()).collect()
      } else {
        (0..hl.len()).filter(|i| hl[*i].is_some()).collect()
      }
    };
    for a in &case.acts {
      let lv = live(&hl, &hs, case.threads_flavour);
      if lv.is_empty() {
        break;
      }
      match a {
        MAct::Append | MAct::AppendClosed => {
          let m = Member { closed: Default::default(), unsubscribed: Default::default() };
          if matches!(a, MAct::AppendClosed) {
            m.closed.store(true, SeqCst);
          }
          let ms = MemberSub { closed: m.closed.clone(), unsubscribed: m.unsubscribed.clone() };
          let i = lv[0];
          if case.threads_flavour {
            hs[i].as_mut().unwrap().append(BoxSubscriptionThreads::new(ms));
          } else {
            hl[i].as_mut().unwrap().append(BoxSubscription::new(ms));
          }
          if unsubscribed {
            late_appends += 1;
            if m.unsubscribed.load(SeqCst) != 1 && violation.is_none() {
              violation = Some(Violation {
                rule: "c17.late-append-left-running".into(),
                site: site.clone(),
                detail: format!("`{}append`: a subscription appended to an already unsubscribed composite was not unsubscribed (it keeps running)", trace),
              });
            }
          }
          members.push(m);
          appended_since_closed = true;
          trace.push_str("append ");
        }
        MAct::Nest => {
          let i = lv[0];
          if case.threads_flavour {
            let c = MultiSubscriptionThreads::default();
            hs[i].as_mut().unwrap().append(BoxSubscriptionThreads::new(c.clone()));
            cs.push(c);
          } else {
            let c = MultiSubscription::default();
            hl[i].as_mut().unwrap().append(BoxSubscription::new(c.clone()));
            cl.push(c);
          }
          cstate.push((false, false));
          appended_since_closed = true;
          trace.push_str("nest ");
        }
        MAct::ChildAppend(k) => {
          if cstate.is_empty() {
            continue;
          }
          let k = *k % cstate.len();
          let m = Member { closed: Default::default(), unsubscribed: Default::default() };
          let ms = MemberSub { closed: m.closed.clone(), unsubscribed: m.unsubscribed.clone() };
          if case.threads_flavour {
            cs[k].append(BoxSubscriptionThreads::new(ms));
          } else {
            cl[k].append(BoxSubscription::new(ms));
          }
          trace.push_str(&format!("child{}-append ", k));
          if unsubscribed {
            late_appends += 1;
            if m.unsubscribed.load(SeqCst) != 1 && violation.is_none() {
              violation = Some(Violation {
                rule: "c17.late-append-left-running".into(),
                site: site.clone(),
                detail: format!("`{}`: the composite (and with it its nested member composite {}) had been unsubscribed; a subscription appended to the nested composite afterwards was not unsubscribed", trace.trim(), k),
              });
            }
          }
          members.push(m);
          cstate[k].1 = true;
          appended_since_closed = true;
        }
        MAct::ChildSample(k) => {
          if cstate.is_empty() {
            continue;
          }
          let k = *k % cstate.len();
          let c = if case.threads_flavour { cs[k].is_closed() } else { cl[k].is_closed() };
          trace.push_str(&format!("child{}-is_closed={} ", k, c));
          if unsubscribed && !c && violation.is_none() {
            violation = Some(Violation { rule: "c17.clone-open-after-unsubscribe".into(), site: site.clone(), detail: format!("`{}`: the composite was unsubscribed, a remaining handle of its nested member composite reports open", trace.trim()) });
          }
          if cstate[k].0 && !c && !cstate[k].1 && violation.is_none() {
            violation = Some(Violation { rule: "c17.closed-then-open".into(), site: site.clone(), detail: format!("`{}`: is_closed() of the nested composite went from true back to false", trace.trim()) });
          }
          if c {
            cstate[k] = (true, false);
          }
        }
        MAct::CloseMember(k) => {
          if !members.is_empty() {
            members[*k % members.len()].closed.store(true, SeqCst);
            trace.push_str("member-closes ");
          }
        }
        MAct::Unsub(k) => {
          let i = lv[*k % lv.len()];
          if case.threads_flavour {
            hs[i].take().unwrap().unsubscribe()
          } else {
            hl[i].take().unwrap().unsubscribe()
          }
          unsubscribed = true;
          trace.push_str("unsubscribe ");
          for (j, m) in members.iter().enumerate() {
            // (a member unsubscribed more than once is not against the statement: counted only)
            if m.unsubscribed.load(SeqCst) > 1 {
              twice += 1;
            }
            if !m.closed.load(SeqCst) && violation.is_none() {
              violation = Some(Violation { rule: "c17.member-left-running".into(), site: site.clone(), detail: format!("`{}`: member {} still running after the composite was unsubscribed", trace.trim(), j) });
            }
          }
        }
        MAct::Sample(k) => {
          let i = lv[*k % lv.len()];
          let c = if case.threads_flavour { hs[i].as_ref().unwrap().is_closed() } else { hl[i].as_ref().unwrap().is_closed() };
          trace.push_str(&format!("is_closed={} ", c));
          if unsubscribed && !c && violation.is_none() {
            violation = Some(Violation { rule: "c17.clone-open-after-unsubscribe".into(), site: site.clone(), detail: format!("`{}`: a remaining handle reports open after unsubscribe()", trace.trim()) });
          }
          if seen_closed && !c && !appended_since_closed && violation.is_none() {
            violation = Some(Violation { rule: "c17.closed-then-open".into(), site: site.clone(), detail: format!("`{}`: is_closed() went from true back to false", trace.trim()) });
          }
          // "once it has returned true it never again returns false" has no
          // exception for an append in between: a composite that was never
          // unsubscribed and is empty (or holds finished members only) answers
          // true, accepts another member and answers false. Judged last, so
          // that it does not hide any other rule of the same history.
          if seen_closed && !c && appended_since_closed && reopened.is_none() {
            reopened = Some(Violation { rule: "c17.closed-then-open".into(), site: format!("{} [re-opened by append]", site), detail: format!("`{}`: is_closed() answered true while the composite was empty or held finished members only, a member was appended, is_closed() answers false", trace.trim()) });
          }
          if c {
            // closed => no member can still act
            if let Some((j, _)) = members.iter().enumerate().find(|(_, m)| !m.closed.load(SeqCst)) {
              if violation.is_none() {
                violation = Some(Violation { rule: "c17.closed-with-live-member".into(), site: site.clone(), detail: format!("`{}`: composite reports closed while member {} is still running", trace.trim(), j) });
              }
            }
            seen_closed = true;
            appended_since_closed = false;
          }
        }
        MAct::CloneHandle(k) => {
          let i = lv[*k % lv.len()];
          if case.threads_flavour {
            let c = hs[i].as_ref().unwrap().clone();
            hs.push(Some(c));
          } else {
            let c = hl[i].as_ref().unwrap().clone();
            hl.push(Some(c));
          }
        }
        MAct::Retain(k) => {
          let i = lv[*k % lv.len()];
          if case.threads_flavour {
            hs[i].as_mut().unwrap().retain()
          } else {
            hl[i].as_mut().unwrap().retain()
          }
        }
      }
      if violation.is_some() {
        break;
      }
    }
    drop(hl);
    drop(hs);
    drop(w);
    if violation.is_none() {
      violation = reopened;
    }
    Ok(Outcome {
      violation,
      trace_hash: hash_str(&trace),
      nontrivial: members.len() >= 1 && case.acts.len() >= 3,
      sim_ns: 0,
      steps: case.acts.len() as u64,
      faults: vec![("append_after_unsubscribe", late_appends)],
      reach: vec![("late_append_to_closed_composite", late_appends), ("info:member_unsubscribed_more_than_once", twice)],
      resolved: None,
      sample: format!("{}: {}", site, trace.trim()),
    })
  }
}

// ------------------------------------------------------------------------ C18

pub struct C18;
impl Scenario for C18 {
  fn name(&self) -> &'static str {
    "c18.pairs"
  }
  fn components(&self) -> (&'static [&'static str], &'static [&'static str]) {
    (&["the same AST built once with the local forms (Rc<RefCell>) and once with the _threads forms (Arc<Mutex>), same resolved action list"], &["executor, timer, clock (sim)"])
  }
  fn generate(&self, rng: &mut Rng, tier: Tier) -> Value {
    let mut c = gen_case(rng, tier, 2, (1, 4), vec![]);
    c.threads_flavour = false;
    serde_json::to_value(c).unwrap()
  }
  fn run(&self, case: &Value) -> Result<Outcome, String> {
    let mut case: PCase = serde_json::from_value(case.clone()).map_err(|e| e.to_string())?;
    case.threads_flavour = false;
    let a = run_pipeline(&case)?;
    let mut cs = case.clone();
    cs.threads_flavour = true;
    let b = run_pipeline(&cs)?;
    // the statement is about the delivered notification sequence; delivery
    // times and is_closed() samples are compared for information only (C07/C08
    // and C17 judge those)
    let ta: Vec<Ev> = a.recs.iter().map(|r| r.ev.clone()).collect();
    let tb: Vec<Ev> = b.recs.iter().map(|r| r.ev.clone()).collect();
    let times_differ = a.recs.iter().map(|r| r.t).collect::<Vec<_>>() != b.recs.iter().map(|r| r.t).collect::<Vec<_>>();
    let closed_differ = a.closed.iter().map(|c| c.1).collect::<Vec<_>>() != b.closed.iter().map(|c| c.1).collect::<Vec<_>>();
    let mut violation = None;
    // a panic in one flavour only is a divergence too; a panic in both is
    // somebody else's finding (BorrowMutError vs self-deadlock are the same defect)
    if a.panic.is_some() != b.panic.is_some() {
      violation = Some(Violation {
        rule: "c18.one-flavour-panics".into(),
        site: site_of(&case),
        detail: format!("local: {:?}; threads: {:?}", a.panic, b.panic),
      });
    } else if a.panic.is_none() && ta != tb {
      violation = Some(Violation {
        rule: "c18.traces-differ".into(),
        site: site_of(&case),
        detail: format!(
          "`{}`: local form delivered [{}], thread-safe form delivered [{}]",
          a.trace.trim(),
          a.recs.iter().map(|r| format!("{}@{}", fmt_ev(&r.ev), r.t / crate::world::MS)).collect::<Vec<_>>().join(" "),
          b.recs.iter().map(|r| format!("{}@{}", fmt_ev(&r.ev), r.t / crate::world::MS)).collect::<Vec<_>>().join(" ")
        ),
      });
    }
    if violation.is_none() && a.panic.is_none() && a.group_terminals != b.group_terminals {
      violation = Some(Violation {
        rule: "c18.traces-differ".into(),
        site: site_of(&case),
        detail: format!("`{}`: the group consumers of group_by were told their terminals (key, 0 complete / 1 error) in the order {:?} in the local form and {:?} in the thread-safe form", a.trace.trim(), a.group_terminals, b.group_terminals),
      });
    }
    let violation_none = violation.is_none() && a.panic.is_none();
    let mut o = outcome(&case, &a, violation, a.recs.len() >= 1, vec![], vec![("locks_taken_by_threads_flavour", b.locks), ("info:same_sequence_but_delivery_times_differ", (violation_none && times_differ) as u64), ("info:same_sequence_but_is_closed_samples_differ", (violation_none && closed_differ) as u64)]);
    o.trace_hash = hash_mix(hash_mix(o.trace_hash, 0x5bd1e995), hash_run(&b));
    Ok(o)
  }
}

pub fn check_c01() -> PropertyCheck {
  PropertyCheck {
    id: "C01",
    scenarios: vec![Box::new(C01)],
    runs: (300_000, 20_000_000),
    rule: "case = random operator tree (depth <=3 quick / <=5 thorough, 1-3 hot inputs + cold/timed sources, whole catalogue, local or _threads flavour, FIFO or any-ready executor) + script of <=28 actions (next/error/complete on any input incl. after its terminal, run task #k, advance, jump); non-trivial = an event was sent after its input's terminal, or >=2 inputs terminated, or a run decision had >=2 ready tasks; distinct = distinct (case, behaviour) hashes",
    assumptions: vec!["producers can only misbehave through subjects (the Observer trait consumes an un-shared observer at its terminal)"],
  }
}

pub fn check_c02() -> PropertyCheck {
  PropertyCheck {
    id: "C02",
    scenarios: vec![Box::new(C02), Box::new(crate::props::c02t::C02Threads)],
    runs: (300_000, 20_000_000),
    rule: "DES case = random operator tree with scheduler-using operators over-weighted + script with unsubscribe()/guard drop injected at a uniformly random position; after the cut the script keeps emitting and the executor runs to idle under its policy; thread case = one emitting thread vs one unsubscribing thread on a _threads pipeline under a seeded lock-level schedule; non-trivial = the cut happened",
    assumptions: vec!["a callback that had started before unsubscribe() returned is allowed to finish"],
  }
}

pub fn check_c17() -> PropertyCheck {
  PropertyCheck {
    id: "C17",
    scenarios: vec![Box::new(C17), Box::new(C17Multi), Box::new(crate::props::c02t::C17Threads), Box::new(C17MultiThreads)],
    runs: (300_000, 20_000_000),
    rule: "pipelines: as C01 with is_closed() sampled after every action and after quiescence; composites: histories of <=10 append / append-closed / member-closes / unsubscribe / is_closed / clone / retain on MultiSubscription(Threads) with counting member stubs; non-trivial = >=3 samples / >=1 member and >=3 ops",
    assumptions: vec![],
  }
}

pub fn check_c18() -> PropertyCheck {
  PropertyCheck {
    id: "C18",
    scenarios: vec![Box::new(C18)],
    runs: (160_000, 10_000_000),
    rule: "case = as C01/C02 (operator tree + action list incl. optional cut); executed once with every operator/subject/subscription in its local form and once in its thread-safe form under identical executor and clock decisions; the two probe traces (events and virtual times) and is_closed samples must be identical; non-trivial = at least one delivery",
    assumptions: vec!["single-threaded histories only (as the property states)"],
  }
}

/// Executor-fidelity self-test: the FIFO policy of the simulated executor vs a
/// real `futures::executor::LocalPool` driving the same generated pipelines
/// (virtual timers and clock on both sides). Returns the number of differing runs.
pub fn fidelity(n: u64, master: u64) -> u64 {
  crate::world::install_hooks();
  let mut diffs = 0;
  let mut compared = 0;
  let mut deliveries = 0usize;
  crate::pipe::FIDELITY.with(|f| f.set(true));
  for i in 0..n {
    let mut rng = Rng::new(crate::rng::derive_seed(master, "fidelity", i));
    let mut c = gen_case(&mut rng, Tier::Quick, 3, (1, 4), vec![]);
    c.threads_flavour = false;
    c.fifo = true;
    let a = match run_pipeline_on(&c, false) {
      Ok(r) => r,
      Err(_) => continue,
    };
    let b = match run_pipeline_on(&c, true) {
      Ok(r) => r,
      Err(_) => continue,
    };
    compared += 1;
    let ta: Vec<(Ev, u64)> = a.recs.iter().map(|r| (r.ev.clone(), r.t)).collect();
    let tb: Vec<(Ev, u64)> = b.recs.iter().map(|r| (r.ev.clone(), r.t)).collect();
    deliveries += ta.len();
    if ta != tb || a.panic.is_some() != b.panic.is_some() {
      diffs += 1;
      if diffs <= 5 {
        println!("DIFF #{}: {}", i, serde_json::to_string(&c.root).unwrap_or_default());
        println!("  script: {}", a.trace.trim());
        println!("  sim FIFO : {}", a.recs.iter().map(|r| format!("{}@{}", fmt_ev(&r.ev), r.t / crate::world::MS)).collect::<Vec<_>>().join(" "));
        println!("  LocalPool: {}", b.recs.iter().map(|r| format!("{}@{}", fmt_ev(&r.ev), r.t / crate::world::MS)).collect::<Vec<_>>().join(" "));
      }
    }
  }
  crate::pipe::FIDELITY.with(|f| f.set(false));
  println!("fidelity: {} pipelines compared (scheduler-using operators over-weighted), {} deliveries, {} differing", compared, deliveries, diffs);
  diffs
}
