//! Thread-mode pipelines: C02 (racing unsubscribe) and C10 (serialised
//! delivery, no deadlock) over `_threads` operator trees driven by 2-3
//! simulated threads and optional pool workers.

use crate::ast::*;
use crate::framework::*;
use crate::pipe::In;
use crate::probe::*;
use crate::rng::Rng;
use crate::threadsim::*;
use crate::world::*;
use rxrust::prelude::*;
use serde::{Deserialize, Serialize};
use serde_json::Value;
use std::sync::atomic::Ordering::SeqCst;
use std::sync::{Arc, Mutex};

#[derive(Clone, Debug, Serialize, Deserialize, PartialEq)]
pub enum TOp {
  Emit { inp: usize, ev: In },
  Unsub,
}

#[derive(Clone, Debug, Serialize, Deserialize)]
pub struct TCase {
  pub root: Node,
  pub n_hot: usize,
  pub threads: Vec<Vec<TOp>>,
  pub workers: usize,
  pub sched: SchedSpec,
}

pub struct TRun {
  pub recs: Vec<Rec>,
  pub overlap: bool,
  pub cut: Option<(u64, u64)>,
  pub rep: TReport,
  pub sim_ns: u64,
}

pub fn gen_tcase(rng: &mut Rng, with_unsub: bool, sched_ops: bool) -> TCase {
  let n_hot = rng.range(1, 2);
  let cfg = GenCfg {
    max_depth: 2,
    n_hot,
    sched_weight: if sched_ops { 2 } else { 0 },
    // time-driven operators need virtual time to pass; keep the ones whose
    // tasks are immediately runnable or short
    exclude: if sched_ops { vec![] } else { vec!["GroupFlat", "GroupLast", "GroupTap"] },
    allow_flat: true,
    producer_leaves: false,
  };
  let root = loop {
    let r = gen_node(rng, &cfg, 0);
    let names = r.op_names();
    if r.valid(0) && r.size() <= 8 && names.iter().any(|n| n == "Hot") && (sched_ops || !r.uses_scheduler()) {
      break r;
    }
  };
  let nt = rng.range(2, 3);
  let mut threads: Vec<Vec<TOp>> = Vec::new();
  let mut term = vec![false; n_hot];
  for t in 0..nt {
    let mut ops = Vec::new();
    if with_unsub && t == nt - 1 {
      // the unsubscribing thread: maybe a few emissions around the cut
      for _ in 0..rng.below(2) {
        ops.push(TOp::Emit { inp: rng.below(n_hot), ev: In::Next });
      }
      ops.push(TOp::Unsub);
    } else {
      let len = rng.range(1, 4);
      for i in 0..len {
        let inp = rng.below(n_hot);
        let ev = if i + 1 == len && !term[inp] && rng.chance(1, 3) {
          term[inp] = true;
          if rng.chance(1, 3) {
            In::Err
          } else {
            In::Complete
          }
        } else {
          In::Next
        };
        ops.push(TOp::Emit { inp, ev });
      }
    }
    threads.push(ops);
  }
  let workers = if root.uses_scheduler() { rng.range(1, 2) } else { 0 };
  let strategy = match rng.below(4) {
    0 => Strategy::Random,
    1 => Strategy::Seq { den: 4 },
    _ => Strategy::Pct { d: rng.range(1, 3) as u8, k: 60 },
  };
  TCase { root, n_hot, threads, workers, sched: SchedSpec::Seeded { seed: rng.next_u64(), strategy } }
}

pub fn run_tpipeline(case: &TCase) -> Result<TRun, String> {
  if case.n_hot == 0 || case.n_hot > 3 || !case.root.valid(0) || case.root.size() > 12 || case.threads.is_empty() || case.threads.len() > 4 || case.workers > 3 {
    return Err("bad shape".into());
  }
  if case.threads.iter().flatten().filter(|o| **o == TOp::Unsub).count() > 1 || case.threads.iter().any(|t| t.len() > 8) {
    return Err("bad scripts".into());
  }
  if case.root.uses_scheduler() && case.workers == 0 {
    return Err("scheduler ops need a worker".into());
  }
  let shr = Shared::new();
  let w = World::with_shared(shr.clone());
  let log = ProbeLog::new(true);
  let counters = Arc::new(Counters::default());
  let hots: Vec<SubjectThreads<Val, E>> = (0..case.n_hot).map(|_| SubjectThreads::default()).collect();
  let ts = TSim::new(shr.clone(), &case.sched, case.threads.len(), case.workers, 30_000);
  let env = EnvS::new(hots.clone(), counters);
  let handle = ts.with_pool(|| std::panic::catch_unwind(std::panic::AssertUnwindSafe(|| build_shared(&case.root, &env).actual_subscribe(Probe(log.clone())))));
  let handle = match handle {
    Ok(h) => Arc::new(Mutex::new(Some(h))),
    Err(p) => return Err(format!("panic while subscribing: {}", panic_message(&*p))),
  };
  let cut: Arc<Mutex<Option<(u64, u64)>>> = Arc::new(Mutex::new(None));
  let mut bodies: Vec<Body> = Vec::new();
  for (t, ops) in case.threads.iter().enumerate() {
    let ops = ops.clone();
    let env = env.clone();
    let handle = handle.clone();
    let cut = cut.clone();
    bodies.push(Box::new(move || {
      let mut n = 0i64;
      for op in &ops {
        match op {
          TOp::Emit { inp, ev } => {
            let i = *inp % env.hots.len();
            if *ev == In::Next {
              n += 1;
            }
            env.emit(i, ev, Val::I((t as i64 + 1) * 1000 + (i as i64) * 100 + n), t as E + 1)
          }
          TOp::Unsub => {
            let h = handle.lock().unwrap().take();
            if let Some(h) = h {
              let sh = shared();
              let before = sh.stamp();
              h.unsubscribe();
              let after = sh.stamp();
              *cut.lock().unwrap() = Some((before, after));
            }
          }
        }
        harness_yield("between-ops");
      }
    }));
  }
  let rep = ts.run(bodies);
  let recs = log.records();
  let overlap = log.overlap.load(SeqCst);
  let c = *cut.lock().unwrap();
  let sim = shr.now();
  let _ = std::panic::catch_unwind(std::panic::AssertUnwindSafe(|| {
    drop(handle);
    drop(hots);
    drop(env);
    drop(w);
  }));
  Ok(TRun { recs, overlap, cut: c, rep, sim_ns: sim })
}

fn tsite(case: &TCase) -> String {
  case.root.op_names().join("+")
}

fn tsample(case: &TCase, run: &TRun) -> String {
  format!(
    "{} threads={:?} workers={} decisions={} preemptions={} => [{}]",
    serde_json::to_string(&case.root).unwrap_or_default(),
    case.threads,
    case.workers,
    run.rep.decisions.len(),
    run.rep.preemptions,
    run.recs.iter().map(|r| format!("{}/t{}", fmt_ev(&r.ev), r.tid)).collect::<Vec<_>>().join(" ")
  )
}

fn toutcome(case: &TCase, run: &TRun, violation: Option<Violation>) -> Outcome {
  let mut resolved = case.clone();
  resolved.sched = SchedSpec::Explicit(run.rep.decisions.clone());
  let mut h = run.rep.trace_hash;
  for r in &run.recs {
    h = hash_mix(h, hash_str(&fmt_ev(&r.ev)) ^ (r.tid as u64) << 32);
  }
  Outcome {
    violation,
    trace_hash: h,
    nontrivial: run.rep.multi_choice > 0,
    sim_ns: run.sim_ns,
    steps: run.rep.steps,
    faults: vec![("preemption_at_lock_point", run.rep.preemptions), ("lock_contention", run.rep.contentions), ("unsubscribe_racing_emitter", run.cut.is_some() as u64)],
    reach: vec![("try_lock_contention_observed", (run.rep.contentions > 0) as u64)],
    resolved: Some(serde_json::to_value(resolved).unwrap()),
    sample: tsample(case, run),
  }
}

fn common_violation(prefix: &str, case: &TCase, run: &TRun) -> Option<Violation> {
  if let Some(d) = &run.rep.deadlock {
    return Some(Violation { rule: format!("{}.deadlock", prefix), site: tsite(case), detail: format!("no thread can make progress: {}", d) });
  }
  if run.rep.budget_overrun {
    return Some(Violation { rule: format!("{}.livelock", prefix), site: tsite(case), detail: "step budget exhausted".into() });
  }
  if let Some((t, m)) = run.rep.panics.first() {
    return Some(Violation { rule: format!("{}.panic", prefix), site: tsite(case), detail: format!("thread {} panicked: {}", t, m) });
  }
  None
}

pub struct C02Threads;
impl Scenario for C02Threads {
  fn name(&self) -> &'static str {
    "c02.threads"
  }
  fn weight(&self) -> usize {
    1
  }
  fn components(&self) -> (&'static [&'static str], &'static [&'static str]) {
    (&["_threads operator trees (ast.rs build_shared), SubjectThreads, MutArc locks"], &["OS thread scheduling (baton)", "pool workers (simulated threads)"])
  }
  fn generate(&self, rng: &mut Rng, _tier: Tier) -> Value {
    let so = rng.chance(1, 3);
    serde_json::to_value(gen_tcase(rng, true, so)).unwrap()
  }
  fn run(&self, case: &Value) -> Result<Outcome, String> {
    let case: TCase = serde_json::from_value(case.clone()).map_err(|e| e.to_string())?;
    let run = run_tpipeline(&case)?;
    let mut violation = common_violation("c02", &case, &run);
    if violation.is_none() {
      if let Some((_, after)) = run.cut {
        if let Some(r) = run.recs.iter().find(|r| r.seq > after) {
          violation = Some(Violation {
            rule: "c02.delivery-after-unsubscribe".into(),
            site: tsite(&case),
            detail: format!("{} was delivered on thread {} (callback entered at stamp {}) after unsubscribe() had returned (stamp {})", fmt_ev(&r.ev), r.tid, r.seq, after),
          });
        }
      }
    }
    Ok(toutcome(&case, &run, violation))
  }
}

pub struct C10Pipes;
impl Scenario for C10Pipes {
  fn name(&self) -> &'static str {
    "c10.pipelines"
  }
  fn weight(&self) -> usize {
    3
  }
  fn components(&self) -> (&'static [&'static str], &'static [&'static str]) {
    (&["_threads operator trees incl. merge/zip/combine_latest/take_until/merge_all/share/observe_on/delay _threads", "SubjectThreads", "scheduler.rs Remote/TaskHandle under worker threads"], &["OS thread scheduling (baton)", "pool workers (simulated threads)", "timer/clock (sim)"])
  }
  fn generate(&self, rng: &mut Rng, _tier: Tier) -> Value {
    let wu = rng.chance(1, 3);
    let so = rng.chance(1, 2);
    serde_json::to_value(gen_tcase(rng, wu, so)).unwrap()
  }
  fn run(&self, case: &Value) -> Result<Outcome, String> {
    let case: TCase = serde_json::from_value(case.clone()).map_err(|e| e.to_string())?;
    let run = run_tpipeline(&case)?;
    let mut violation = common_violation("c10", &case, &run);
    if violation.is_none() && run.overlap {
      violation = Some(Violation { rule: "c10.overlap".into(), site: tsite(&case), detail: "the subscriber callback was entered on one thread while another thread was still inside it".into() });
    }
    if violation.is_none() {
      let evs: Vec<Ev> = run.recs.iter().map(|r| r.ev.clone()).collect();
      if let Some(i) = grammar_violation(&evs) {
        violation = Some(Violation { rule: "c10.grammar".into(), site: tsite(&case), detail: format!("notification #{} after the terminal: [{}]", i, fmt_trace(&evs)) });
      }
    }
    Ok(toutcome(&case, &run, violation))
  }
}

pub fn check_c10() -> PropertyCheck {
  PropertyCheck {
    id: "C10",
    scenarios: vec![
      Box::new(C10Pipes),
      // share_threads subscribing its source twice under racing subscribers is C11's statement
      Box::new(OnlyRules { inner: Box::new(C10Share), keep: &[".overlap", ".grammar", ".deadlock", ".livelock", ".panic"] }),
      // exactly-once / membership of subject delivery is C06's statement
      Box::new(OnlyRules { inner: Box::new(crate::props::c06::C06Threads), keep: &[".overlap", ".common-order", ".grammar", ".deadlock", ".livelock", ".panic"] }),
      Box::new(crate::props::c14::C14Threads),
      // debounce / throttle / sample / buffer timers on pool workers against an emitting thread
      Box::new(OnlyRules { inner: Box::new(crate::props::c09::C09Threads), keep: &[".overlap", ".grammar", ".deadlock", ".livelock", ".panic"] }),
      // merge_all_threads / concat_all_threads with one emitting thread per inner and an unsubscribing thread
      Box::new(OnlyRules { inner: Box::new(crate::props::c05::C05Threads), keep: &[".overlap", ".grammar", ".deadlock", ".livelock", ".panic"] }),
    ],
    runs: (300_000, 12_000_000),
    rule: "pipelines: random _threads operator tree (depth <=2, 1-2 hot inputs, incl. merge/zip/combine_latest/take_until/merge_all/share/observe_on/delay _threads) driven by 2-3 simulated threads (next/complete/error, optionally one unsubscribing thread) plus 0-2 pool workers, every interleaving decision at MutArc lock points and inside probe callbacks drawn from the PRNG (random walk, PCT d<=3, mostly-sequential); subject part: the C06 thread scenario; blocking calls (wait_for_end, parked to_future/to_stream waiters against a producing thread): the C14 thread scenario, whose 'every call returns / no lost wakeup' rules are C10's as well; non-trivial = >=1 decision with >1 eligible thread; distinct = distinct (case, schedule, behaviour) hashes",
    assumptions: vec!["no callback re-enters its own pipeline (the property's stated precondition)", "interleavings at lock granularity, sequentially consistent"],
  }
}

// -------------------------------------------------------------- c16.threads

/// C16 on a pool: an early terminator over a tree whose leaves are unbounded
/// asynchronous producers (interval, interval_at, from_stream(_result) over the
/// counting stream) and hot inputs driven by caller threads. Once every caller
/// has returned the pool drains for 100 virtual ms (every period and delay in
/// the tree is <= 5 ms); a subscriber that got its terminal must leave no task
/// behind.
pub struct C16Threads;
impl Scenario for C16Threads {
  fn name(&self) -> &'static str {
    "c16.threads"
  }
  fn components(&self) -> (&'static [&'static str], &'static [&'static str]) {
    (&["_threads operator trees over interval / interval_at / from_stream(_result) producers", "Observer::is_finished through MutArc cells", "scheduler.rs RepeatTask / Remote under worker threads"], &["OS thread scheduling (baton)", "pool workers (simulated threads)", "timer/clock (sim)", "counting stream (harness)"])
  }
  fn generate(&self, rng: &mut Rng, _tier: Tier) -> Value {
    let n_hot = rng.range(1, 2);
    let cfg = GenCfg { max_depth: 2, n_hot, sched_weight: 1, exclude: vec!["Share", "GroupFlat", "GroupLast", "GroupTap"], allow_flat: true, producer_leaves: true };
    let root = loop {
      let sub = gen_node(rng, &cfg, 1);
      let small = rng.below(3) as u8;
      let r = match rng.below(8) {
        0 | 1 => Node::U(UOp::Take(small + 1), Box::new(sub)),
        2 => Node::U(UOp::First, Box::new(sub)),
        3 => Node::U(UOp::ElementAt(small), Box::new(sub)),
        4 => Node::U(UOp::TakeWhile(small + 2), Box::new(sub)),
        5 => Node::U(UOp::Contains(small), Box::new(sub)),
        6 => Node::U(UOp::All(small + 3), Box::new(sub)),
        _ => Node::B(BOp::TakeUntil, Box::new(sub), Box::new(Node::Hot(0))),
      };
      if r.valid(0) && r.size() <= 10 && r.op_names().iter().any(|n| matches!(n.as_str(), "Ticker" | "TickerAt" | "PollStream" | "PollStreamR")) {
        break r;
      }
    };
    let nt = rng.range(1, 2);
    let mut threads: Vec<Vec<TOp>> = Vec::new();
    let mut term = vec![false; n_hot];
    for _ in 0..nt {
      let len = rng.range(1, 5);
      let mut ops = Vec::new();
      for i in 0..len {
        let inp = rng.below(n_hot);
        let ev = if i + 1 == len && !term[inp] && rng.chance(1, 3) {
          term[inp] = true;
          if rng.chance(1, 3) {
            In::Err
          } else {
            In::Complete
          }
        } else {
          In::Next
        };
        ops.push(TOp::Emit { inp, ev });
      }
      threads.push(ops);
    }
    let strategy = match rng.below(4) {
      0 => Strategy::Random,
      1 => Strategy::Seq { den: 4 },
      _ => Strategy::Pct { d: rng.range(1, 3) as u8, k: 60 },
    };
    serde_json::to_value(TCase { root, n_hot, threads, workers: rng.range(1, 2), sched: SchedSpec::Seeded { seed: rng.next_u64(), strategy } }).unwrap()
  }
  fn run(&self, case: &Value) -> Result<Outcome, String> {
    let case: TCase = serde_json::from_value(case.clone()).map_err(|e| e.to_string())?;
    if case.threads.iter().flatten().any(|o| *o == TOp::Unsub) || case.workers == 0 {
      return Err("c16.threads has no unsubscribing thread and needs a worker".into());
    }
    let run = run_tpipeline(&case)?;
    // deadlock / panic are C10's statement; an exhausted step budget here is a
    // workload that grows by itself (flat_map of unbounded tickers), not a
    // verdict - such runs are counted, not judged
    let unjudged = run.rep.deadlock.is_some() || run.rep.budget_overrun || !run.rep.panics.is_empty();
    let mut violation = None;
    let term = run.recs.iter().find(|r| r.ev.is_terminal());
    if !unjudged {
      if let (Some(t), Some(done)) = (term, run.rep.users_done_at) {
        // the drain window is 100 ms from `done`: judge only terminals that left
        // at least half of it
        if run.rep.leftover_tasks > 0 && t.t <= done + 50 * crate::world::MS {
          violation = Some(Violation {
            rule: "c16.producer-not-retired".into(),
            site: tsite(&case),
            detail: format!(
              "the subscriber got its terminal at {}ms and every caller thread had returned at {}ms, yet {} pool task(s) were still alive when the pool was shut down at {}ms (all periods and delays in the pipeline are <= 5ms)",
              t.t / crate::world::MS,
              done / crate::world::MS,
              run.rep.leftover_tasks,
              run.sim_ns / crate::world::MS
            ),
          });
        }
      }
    }
    let mut o = toutcome(&case, &run, violation);
    o.reach = vec![("probe_terminated_with_unbounded_producer_upstream(threads)", term.is_some() as u64), ("info:pool_tasks_left_at_shutdown_without_a_terminal", (term.is_none() && run.rep.leftover_tasks > 0) as u64), ("info:not_judged(step budget / deadlock / panic)", unjudged as u64)];
    Ok(o)
  }
}

// ---------------------------------------------------------------- c10.share

#[derive(Clone, Debug, Serialize, Deserialize, PartialEq)]
pub enum SOp {
  Emit { inp: usize, ev: In },
  /// subscribe a fresh probe to the shared observable
  Subscribe,
  /// unsubscribe the most recent subscription this thread made (or a pre-made one)
  Unsub,
}

#[derive(Clone, Debug, Serialize, Deserialize)]
pub struct SCase {
  /// the shared source: build_shared(root).share_threads()
  root: Node,
  n_hot: usize,
  pre_subscribed: usize,
  threads: Vec<Vec<SOp>>,
  sched: SchedSpec,
}

pub struct C10Share;
impl Scenario for C10Share {
  fn name(&self) -> &'static str {
    "c10.share"
  }
  fn weight(&self) -> usize {
    1
  }
  fn components(&self) -> (&'static [&'static str], &'static [&'static str]) {
    (&["share_threads (ShareOpThreads, RefCountSubscription, inner SubjectThreads) with concurrent subscribe / unsubscribe / emit"], &["OS thread scheduling (baton)"])
  }
  fn generate(&self, rng: &mut Rng, _tier: Tier) -> Value {
    let n_hot = rng.range(1, 2);
    let cfg = GenCfg { max_depth: 1, n_hot, sched_weight: 0, exclude: vec!["GroupFlat", "GroupLast", "GroupTap", "Share"], allow_flat: true, producer_leaves: false };
    let root = loop {
      let r = gen_node(rng, &cfg, 0);
      if r.valid(0) && r.size() <= 5 && r.op_names().iter().any(|n| n == "Hot") && !r.uses_scheduler() {
        break r;
      }
    };
    let nt = rng.range(2, 3);
    let mut threads = Vec::new();
    for _ in 0..nt {
      let mut ops = Vec::new();
      for _ in 0..rng.range(1, 4) {
        ops.push(match rng.weighted(&[6, 3, 2]) {
          0 => SOp::Emit { inp: rng.below(n_hot), ev: if rng.chance(1, 8) { In::Complete } else { In::Next } },
          1 => SOp::Subscribe,
          _ => SOp::Unsub,
        });
      }
      threads.push(ops);
    }
    let strategy = match rng.below(3) {
      0 => Strategy::Random,
      1 => Strategy::Seq { den: 4 },
      _ => Strategy::Pct { d: rng.range(1, 3) as u8, k: 60 },
    };
    serde_json::to_value(SCase { root, n_hot, pre_subscribed: rng.range(0, 2), threads, sched: SchedSpec::Seeded { seed: rng.next_u64(), strategy } }).unwrap()
  }
  fn run(&self, case: &Value) -> Result<Outcome, String> {
    let case: SCase = serde_json::from_value(case.clone()).map_err(|e| e.to_string())?;
    if case.n_hot == 0 || case.n_hot > 3 || !case.root.valid(0) || case.root.size() > 8 || case.root.uses_scheduler() || case.threads.is_empty() || case.threads.len() > 4 || case.pre_subscribed > 3 || case.threads.iter().any(|t| t.len() > 8) {
      return Err("bad shape".into());
    }
    let shr = Shared::new();
    let w = World::with_shared(shr.clone());
    let counters = Arc::new(Counters::default());
    let hots: Vec<SubjectThreads<Val, E>> = (0..case.n_hot).map(|_| SubjectThreads::default()).collect();
    let env = EnvS::new(hots.clone(), counters);
    let subs = Arc::new(std::sync::atomic::AtomicUsize::new(0));
    let shared_obs = match std::panic::catch_unwind(std::panic::AssertUnwindSafe(|| {
      crate::props::c11::CountSrc::new(build_shared(&case.root, &env), subs.clone()).share_threads()
    })) {
      Ok(s) => s,
      Err(p) => return Err(format!("panic while building: {}", panic_message(&*p))),
    };
    // probe slots: pre-subscribed first, then one per Subscribe op
    let mut logs: Vec<Arc<ProbeLog>> = Vec::new();
    let mut pre: Vec<Box<dyn crate::props::c06::SubHandle + Send>> = Vec::new();
    for _ in 0..case.pre_subscribed {
      let l = ProbeLog::new(true);
      pre.push(Box::new(shared_obs.clone().actual_subscribe(Probe(l.clone()))));
      logs.push(l);
    }
    let pre = Arc::new(Mutex::new(pre));
    let mut slots: Vec<Vec<Option<usize>>> = Vec::new();
    for ops in &case.threads {
      slots.push(
        ops
          .iter()
          .map(|o| {
            if *o == SOp::Subscribe {
              logs.push(ProbeLog::new(true));
              Some(logs.len() - 1)
            } else {
              None
            }
          })
          .collect(),
      );
    }
    let ts = TSim::new(shr.clone(), &case.sched, case.threads.len(), 0, 30_000);
    let mut bodies: Vec<Body> = Vec::new();
    for (t, ops) in case.threads.iter().enumerate() {
      let ops = ops.clone();
      let env = env.clone();
      let logs = logs.clone();
      let slots = slots[t].clone();
      let so = shared_obs.clone();
      let pre = pre.clone();
      bodies.push(Box::new(move || {
        let mut own: Vec<Box<dyn crate::props::c06::SubHandle + Send>> = Vec::new();
        let mut n = 0i64;
        for (i, op) in ops.iter().enumerate() {
          match op {
            SOp::Emit { inp, ev } => {
              let k = *inp % env.hots.len();
              if *ev == In::Next {
                n += 1;
              }
              env.emit(k, ev, Val::I((t as i64 + 1) * 1000 + n), 1)
            }
            SOp::Subscribe => {
              let l = logs[slots[i].unwrap()].clone();
              own.push(Box::new(so.clone().actual_subscribe(Probe(l))));
            }
            SOp::Unsub => {
              let h = own.pop().or_else(|| pre.lock().unwrap().pop());
              if let Some(h) = h {
                h.unsub();
              }
            }
          }
          harness_yield("between-ops");
        }
        drop(own);
      }));
    }
    let rep = ts.run(bodies);
    let site = format!("share_threads over {}", case.root.op_names().join("+"));
    let mut violation = None;
    if let Some(d) = &rep.deadlock {
      violation = Some(Violation { rule: "c10.deadlock".into(), site: site.clone(), detail: format!("no thread can make progress: {}", d) });
    } else if rep.budget_overrun {
      violation = Some(Violation { rule: "c10.livelock".into(), site: site.clone(), detail: "step budget exhausted".into() });
    } else if let Some((t, m)) = rep.panics.first() {
      violation = Some(Violation { rule: "c10.panic".into(), site: site.clone(), detail: format!("thread {} panicked: {}", t, m) });
    } else {
      for (k, l) in logs.iter().enumerate() {
        if l.overlap.load(SeqCst) {
          violation = Some(Violation { rule: "c10.overlap".into(), site: site.clone(), detail: format!("subscriber {} was entered on two threads at once", k) });
          break;
        }
        let evs = l.events();
        if let Some(i) = grammar_violation(&evs) {
          violation = Some(Violation { rule: "c10.grammar".into(), site: site.clone(), detail: format!("subscriber {}: notification #{} after the terminal: [{}]", k, i, fmt_trace(&evs)) });
          break;
        }
      }
      let sc = subs.load(SeqCst);
      if violation.is_none() && sc > 1 {
        violation = Some(Violation { rule: "c10.source-subscribed-twice".into(), site: site.clone(), detail: format!("concurrent subscribers made share_threads subscribe its source {} times", sc) });
      }
    }
    let mut resolved = case.clone();
    resolved.sched = SchedSpec::Explicit(rep.decisions.clone());
    let mut h = rep.trace_hash;
    for l in &logs {
      for r in l.records() {
        h = hash_mix(h, hash_str(&fmt_ev(&r.ev)) ^ (r.tid as u64) << 32);
      }
      h = hash_mix(h, 3);
    }
    let sample = format!(
      "share_threads({}) pre={} threads={:?} decisions={} => {}",
      serde_json::to_string(&case.root).unwrap_or_default(),
      case.pre_subscribed,
      case.threads,
      rep.decisions.len(),
      logs.iter().enumerate().map(|(k, l)| format!("s{}=[{}]", k, fmt_trace(&l.events()))).collect::<Vec<_>>().join(" ")
    );
    let _ = std::panic::catch_unwind(std::panic::AssertUnwindSafe(|| {
      drop(pre);
      drop(shared_obs);
      drop(hots);
      drop(env);
      drop(w);
    }));
    Ok(Outcome {
      violation,
      trace_hash: h,
      nontrivial: rep.multi_choice > 0,
      sim_ns: 0,
      steps: rep.steps,
      faults: vec![("preemption_at_lock_point", rep.preemptions), ("lock_contention", rep.contentions)],
      reach: vec![("try_lock_contention_observed", (rep.contentions > 0) as u64)],
      resolved: Some(serde_json::to_value(resolved).unwrap()),
      sample,
    })
  }
}

// -------------------------------------------------------------- c17.threads

#[derive(Clone, Debug, Serialize, Deserialize)]
pub struct ICase {
  root: Node,
  n_hot: usize,
  /// emitter script
  emits: Vec<(usize, In)>,
  /// number of is_closed() samples taken by the sampling thread
  samples: usize,
  workers: usize,
  sched: SchedSpec,
  /// the subscription is a member of a composite; after this many samples the
  /// sampling thread unsubscribes the composite through one handle and goes on
  /// sampling through a remaining clone
  #[serde(default)]
  unsub_after: Option<usize>,
}

/// is_closed() sampled from one thread while another emits into a _threads
/// pipeline whose tasks run on pool workers.
pub struct C17Threads;
impl Scenario for C17Threads {
  fn name(&self) -> &'static str {
    "c17.threads"
  }
  fn weight(&self) -> usize {
    1
  }
  fn components(&self) -> (&'static [&'static str], &'static [&'static str]) {
    (&["is_closed() of ZipSubscription / MultiSubscriptionThreads / TaskHandle / SubscriberThreads read concurrently with emissions and task completions"], &["OS thread scheduling (baton), pool workers, timer, clock (sim)"])
  }
  fn generate(&self, rng: &mut Rng, _tier: Tier) -> Value {
    let n_hot = 1;
    // no flattening here: asking a merge_all composite from a foreign thread is
    // outside what C17 states (and C10 does not list is_closed among its operations)
    let cfg = GenCfg { max_depth: 2, n_hot, sched_weight: 4, exclude: vec!["GroupFlat", "GroupLast", "GroupTap", "Share"], allow_flat: false, producer_leaves: false };
    let root = loop {
      let r = gen_node(rng, &cfg, 0);
      if r.valid(0) && r.size() <= 5 && r.op_names().iter().any(|n| n == "Hot") {
        break r;
      }
    };
    let mut emits = Vec::new();
    for _ in 0..rng.range(1, 3) {
      emits.push((0usize, In::Next));
    }
    if rng.chance(3, 4) {
      emits.push((0, if rng.chance(1, 4) { In::Err } else { In::Complete }));
    }
    let strategy = match rng.below(3) {
      0 => Strategy::Random,
      1 => Strategy::Seq { den: 3 },
      _ => Strategy::Pct { d: rng.range(1, 3) as u8, k: 60 },
    };
    serde_json::to_value(ICase { workers: if root.uses_scheduler() { rng.range(1, 2) } else { 0 }, root, n_hot, emits, samples: rng.range(2, 4), sched: SchedSpec::Seeded { seed: rng.next_u64(), strategy }, unsub_after: if rng.chance(1, 3) { Some(rng.below(3)) } else { None } }).unwrap()
  }
  fn run(&self, case: &Value) -> Result<Outcome, String> {
    let case: ICase = serde_json::from_value(case.clone()).map_err(|e| e.to_string())?;
    fn has_flat(n: &Node) -> bool {
      match n {
        Node::Flat { .. } => true,
        Node::U(_, s) | Node::Defer(s) => has_flat(s),
        Node::B(_, a, b) => has_flat(a) || has_flat(b),
        _ => false,
      }
    }
    if case.n_hot != 1 || !case.root.valid(0) || case.root.size() > 8 || has_flat(&case.root) || case.emits.len() > 8 || case.samples > 8 || case.workers > 3 || (case.root.uses_scheduler() && case.workers == 0) {
      return Err("bad shape".into());
    }
    let shr = Shared::new();
    let w = World::with_shared(shr.clone());
    let log = ProbeLog::new(true);
    let counters = Arc::new(Counters::default());
    let hots: Vec<SubjectThreads<Val, E>> = vec![SubjectThreads::default()];
    let ts = TSim::new(shr.clone(), &case.sched, 2, case.workers, 30_000);
    let env = EnvS::new(hots.clone(), counters);
    let handle = ts.with_pool(|| std::panic::catch_unwind(std::panic::AssertUnwindSafe(|| build_shared(&case.root, &env).actual_subscribe(Probe(log.clone())))));
    let handle = match handle {
      Ok(h) => {
        // the pipeline's subscription as the one member of a composite: the
        // sampling thread keeps a clone of the composite as its handle
        let mut comp = MultiSubscriptionThreads::default();
        comp.append(BoxSubscriptionThreads::new(h));
        Arc::new(Mutex::new(Some(comp)))
      }
      Err(p) => return Err(format!("panic while subscribing: {}", panic_message(&*p))),
    };
    let unsub_stamp: Arc<Mutex<Option<u64>>> = Arc::new(Mutex::new(None));
    let samples: Arc<Mutex<Vec<(u64, bool)>>> = Arc::new(Mutex::new(Vec::new()));
    let mut bodies: Vec<Body> = Vec::new();
    {
      let env = env.clone();
      let emits = case.emits.clone();
      bodies.push(Box::new(move || {
        let mut n = 0i64;
        for (_, ev) in &emits {
          if *ev == In::Next {
            n += 1;
          }
          env.emit(0, ev, Val::I(n), 1);
          harness_yield("between-ops");
        }
      }));
    }
    {
      let handle = handle.clone();
      let samples = samples.clone();
      let k = case.samples;
      let unsub_after = case.unsub_after;
      let unsub_stamp = unsub_stamp.clone();
      bodies.push(Box::new(move || {
        let remaining = handle.lock().unwrap().as_ref().map(|c| c.clone());
        for i in 0..k {
          harness_yield("before-sample");
          if unsub_after == Some(i) {
            let c = handle.lock().unwrap().take();
            if let Some(c) = c {
              c.unsubscribe();
              *unsub_stamp.lock().unwrap() = Some(shared().stamp());
            }
          }
          if let Some(h) = remaining.as_ref() {
            let c = h.is_closed();
            let st = shared().stamp();
            samples.lock().unwrap().push((st, c));
          }
          harness_sleep_ms(1);
        }
      }));
    }
    let rep = ts.run(bodies);
    let recs = log.records();
    let smp = samples.lock().unwrap().clone();
    let site = case.root.op_names().join("+");
    let mut violation = common_violation("c17", &TCase { root: case.root.clone(), n_hot: 1, threads: vec![], workers: case.workers, sched: case.sched.clone() }, &TRun { recs: recs.clone(), overlap: false, cut: None, rep: rep.clone(), sim_ns: 0 });
    if violation.is_none() {
      if let Some(u) = *unsub_stamp.lock().unwrap() {
        if let Some((st, _)) = smp.iter().find(|(st, c)| *st > u && !*c) {
          violation = Some(Violation { rule: "c17.clone-open-after-unsubscribe".into(), site: site.clone(), detail: format!("unsubscribe() of the composite returned at stamp {}, a remaining clone answered is_closed() == false at stamp {}", u, st) });
        }
      }
    }
    if violation.is_none() {
      if let Some((s, _)) = smp.iter().find(|(_, c)| *c) {
        if smp.iter().any(|(st, c)| *st > *s && !*c) {
          violation = Some(Violation { rule: "c17.closed-then-open".into(), site: site.clone(), detail: format!("samples {:?}: is_closed() returned true and later false", smp) });
        } else if let Some(r) = recs.iter().find(|r| r.seq > *s) {
          violation = Some(Violation {
            rule: "c17.delivery-after-closed".into(),
            site: site.clone(),
            detail: format!("is_closed() returned true (stamp {}) on the sampling thread, yet {} was delivered later (stamp {}, thread {})", s, fmt_ev(&r.ev), r.seq, r.tid),
          });
        }
      }
    }
    let mut resolved = case.clone();
    resolved.sched = SchedSpec::Explicit(rep.decisions.clone());
    let mut h = rep.trace_hash;
    for r in &recs {
      h = hash_mix(h, hash_str(&fmt_ev(&r.ev)) ^ (r.tid as u64) << 32);
    }
    for (_, c) in &smp {
      h = hash_mix(h, *c as u64 + 1);
    }
    let sample = format!(
      "{} emits={:?} workers={} decisions={} => samples={:?} probe=[{}]",
      serde_json::to_string(&case.root).unwrap_or_default(),
      case.emits,
      case.workers,
      rep.decisions.len(),
      smp.iter().map(|(_, c)| *c).collect::<Vec<_>>(),
      recs.iter().map(|r| fmt_ev(&r.ev)).collect::<Vec<_>>().join(" ")
    );
    let sim = shr.now();
    let _ = std::panic::catch_unwind(std::panic::AssertUnwindSafe(|| {
      drop(handle);
      drop(hots);
      drop(env);
      drop(w);
    }));
    Ok(Outcome {
      violation,
      trace_hash: h,
      nontrivial: rep.multi_choice > 0,
      sim_ns: sim,
      steps: rep.steps,
      faults: vec![("preemption_at_lock_point", rep.preemptions), ("lock_contention", rep.contentions)],
      reach: vec![("is_closed_true_sampled_concurrently", smp.iter().any(|(_, c)| *c) as u64)],
      resolved: Some(serde_json::to_value(resolved).unwrap()),
      sample,
    })
  }
}
