pub mod c02t;
pub mod c04;
pub mod c05;
pub mod c06;
pub mod c07;
pub mod c08;
pub mod c09;
pub mod c11;
pub mod c12;
pub mod c14;
pub mod c15;
pub mod c16;
pub mod c19;
pub mod pipes;

use crate::framework::PropertyCheck;

pub fn all_checks() -> Vec<PropertyCheck> {
  vec![pipes::check_c01(), pipes::check_c02(), c04::check_def(), c05::check_def(), c06::check_def(), c07::check_def(), c08::check_def(), c09::check_def(), c02t::check_c10(), c11::check_def(), c12::check_def(), c14::check_def(), c15::check_def(), c16::check_def(), pipes::check_c17(), pipes::check_c18(), c19::check_def()]
}
