pub mod c19;

use crate::framework::PropertyCheck;

pub fn all_checks() -> Vec<PropertyCheck> {
  vec![c19::check_def()]
}
