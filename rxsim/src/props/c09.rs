//! C09 — rate-limiting operators never invent, duplicate or reorder items:
//! debounce, throttle_time (leading / tailing / all), sample(interval),
//! buffer_with_time, buffer_with_count_and_time, driven by a timed hot source
//! on the virtual clock, with both orders of same-instant source events and
//! timer firings.

use crate::framework::*;
use crate::probe::*;
use crate::rng::Rng;
use crate::world::*;
use rxrust::ops::throttle::ThrottleEdge;
use rxrust::prelude::*;
use serde::{Deserialize, Serialize};
use serde_json::Value;
use std::time::Duration;

#[derive(Clone, Debug, Serialize, Deserialize, PartialEq)]
pub enum ROp {
  Debounce,
  ThrottleLeading,
  ThrottleTailing,
  ThrottleAll,
  Sample,
  BufferTime,
  BufferCountTime(usize),
}

#[derive(Clone, Debug, Serialize, Deserialize, PartialEq)]
pub enum In {
  Next,
  Complete,
  Error,
}

#[derive(Clone, Debug, Serialize, Deserialize)]
pub struct Step {
  /// virtual ms since the previous source event
  gap: u32,
  ev: In,
  /// at an exact tie with a timer deadline: timers first, then the source event
  timer_first: bool,
}

#[derive(Clone, Debug, Serialize, Deserialize)]
pub struct Case {
  op: ROp,
  w: u32,
  shared_sched: bool,
  steps: Vec<Step>,
  /// throttle with a duration selector: items with an even value open a
  /// window of `w2` ms, the others one of `w` ms
  #[serde(default)]
  w2: Option<u32>,
  /// a second, unjudged subscription made from a clone of the same operator value,
  /// live at the same time: 1 = subscribed after the judged one, 2 = before it
  /// (per-subscription state must not be shared between clones)
  #[serde(default)]
  twin: u8,
}

pub struct C09;

fn sub_twin<Item, Err, O>(o: O, p: Probe, twin: u8) -> Box<dyn std::any::Any>
where
  O: Observable<Item, Err, Probe> + Clone,
  Probe: Observer<Item, Err>,
  O::Unsub: 'static,
{
  match twin {
    1 => {
      let o2 = o.clone();
      let a = o.actual_subscribe(p);
      let b = o2.actual_subscribe(Probe(ProbeLog::new(false)));
      Box::new((a, b))
    }
    2 => {
      let o2 = o.clone();
      let b = o2.actual_subscribe(Probe(ProbeLog::new(false)));
      let a = o.actual_subscribe(p);
      Box::new((a, b))
    }
    _ => Box::new(o.actual_subscribe(p)),
  }
}

/// expected output with its earliest delivery time
type Exp = Vec<(Ev, u64)>;

/// Reference model. `tie(i)` = at an exact tie before source event `i`, did the
/// timer side go first?
fn model(op: &ROp, w: u64, w2: Option<u64>, t_sub: u64, evs: &[(u64, Ev)], tie: &dyn Fn(usize) -> bool, t_end: u64) -> Exp {
  model_h(op, w, w2, t_sub, evs, tie, &|_| false, t_end)
}

/// `hybrid(i)` (thread mode only): source event `i` and the window timer fall
/// due at the same instant on two threads and interleave - the item is stored
/// as the window's last one, the timer delivers it, and the item still finds
/// the window closed and opens the next one. Nothing is lost, duplicated or
/// reordered by that, and the statement does not order the two.
/// `w2`: throttle with a duration selector - windows opened by an item with an
/// even value last `w2` instead of `w`.
fn model_h(op: &ROp, w: u64, w2: Option<u64>, t_sub: u64, evs: &[(u64, Ev)], tie: &dyn Fn(usize) -> bool, hybrid: &dyn Fn(usize) -> bool, t_end: u64) -> Exp {
  let wv = |v: &Val| match (w2, v) {
    (Some(x), Val::I(i)) if i % 2 == 0 => x,
    _ => w,
  };
  let mut out: Exp = Vec::new();
  let before = |deadline: u64, t: u64, i: usize| deadline < t || (deadline == t && tie(i));
  match op {
    ROp::Debounce => {
      let mut pending: Option<(Val, u64)> = None;
      for (i, (t, e)) in evs.iter().enumerate() {
        if let Some((v, d)) = pending.clone() {
          if before(d, *t, i) {
            out.push((Ev::Next(v), d));
            pending = None;
          }
        }
        match e {
          Ev::Next(v) => pending = Some((v.clone(), t + w)),
          Ev::Complete => {
            if let Some((v, _)) = pending.take() {
              out.push((Ev::Next(v), *t));
            }
            out.push((Ev::Complete, *t));
            return out;
          }
          Ev::Err(x) => {
            out.push((Ev::Err(*x), *t));
            return out;
          }
        }
      }
      if let Some((v, d)) = pending {
        if d <= t_end {
          out.push((Ev::Next(v), d));
        }
      }
    }
    ROp::ThrottleLeading | ROp::ThrottleTailing | ROp::ThrottleAll => {
      let leading = !matches!(op, ROp::ThrottleTailing);
      let tailing = !matches!(op, ROp::ThrottleLeading);
      let mut window_end: Option<u64> = None;
      let mut trailing: Option<Val> = None;
      for (i, (t, e)) in evs.iter().enumerate() {
        if let Some(we) = window_end {
          if before(we, *t, i) {
            if let Some(v) = trailing.take() {
              out.push((Ev::Next(v), we));
            }
            window_end = None;
          }
        }
        if let (Some(we), Ev::Next(v)) = (window_end, e) {
          if we == *t && tailing && hybrid(i) {
            out.push((Ev::Next(v.clone()), we));
            trailing = None;
            window_end = Some(t + wv(v));
            continue;
          }
        }
        match e {
          Ev::Next(v) => {
            if window_end.is_none() {
              window_end = Some(t + wv(v));
              if leading {
                out.push((Ev::Next(v.clone()), *t));
              } else {
                trailing = Some(v.clone());
              }
            } else if tailing {
              trailing = Some(v.clone());
            }
          }
          Ev::Complete => {
            if let Some(v) = trailing.take() {
              out.push((Ev::Next(v), *t));
            }
            out.push((Ev::Complete, *t));
            return out;
          }
          Ev::Err(x) => {
            out.push((Ev::Err(*x), *t));
            return out;
          }
        }
      }
      if let (Some(we), Some(v)) = (window_end, trailing) {
        if we <= t_end {
          out.push((Ev::Next(v), we));
        }
      }
    }
    ROp::Sample | ROp::BufferTime | ROp::BufferCountTime(_) => {
      // periodic ticks at t_sub + k*w
      let count = if let ROp::BufferCountTime(c) = op { *c } else { usize::MAX };
      let is_sample = matches!(op, ROp::Sample);
      let mut next_tick = t_sub + w;
      let mut gathered: Vec<Val> = Vec::new();
      let flush = |g: &mut Vec<Val>, at: u64, out: &mut Exp| {
        if g.is_empty() {
          return;
        }
        if is_sample {
          let v = g.pop().unwrap();
          g.clear();
          out.push((Ev::Next(v), at));
        } else {
          out.push((Ev::Next(Val::L(std::mem::take(g))), at));
        }
      };
      for (i, (t, e)) in evs.iter().enumerate() {
        while before(next_tick, *t, i) {
          flush(&mut gathered, next_tick, &mut out);
          next_tick += w;
        }
        match e {
          Ev::Next(v) => {
            gathered.push(v.clone());
            if gathered.len() >= count {
              flush(&mut gathered, *t, &mut out);
            }
          }
          Ev::Complete => {
            if !is_sample {
              flush(&mut gathered, *t, &mut out);
            }
            out.push((Ev::Complete, *t));
            return out;
          }
          Ev::Err(x) => {
            out.push((Ev::Err(*x), *t));
            return out;
          }
        }
      }
      while next_tick <= t_end {
        flush(&mut gathered, next_tick, &mut out);
        next_tick += w;
      }
    }
  }
  out
}

impl Scenario for C09 {
  fn name(&self) -> &'static str {
    "c09.des"
  }
  fn weight(&self) -> usize {
    5
  }
  fn components(&self) -> (&'static [&'static str], &'static [&'static str]) {
    (
      &["ops/debounce.rs", "ops/throttle.rs", "ops/sample.rs + observable/interval.rs", "ops/buffer.rs (time forms)", "scheduler.rs (OnceTask with delay, RepeatTask, TaskHandle cancel)"],
      &["executor (FIFO, runs as timers fall due), timer, clock (sim)"],
    )
  }
  fn generate(&self, rng: &mut Rng, tier: Tier) -> Value {
    let op = match rng.below(9) {
      0 | 1 => ROp::Debounce,
      2 => ROp::ThrottleLeading,
      3 => ROp::ThrottleTailing,
      4 | 5 => ROp::ThrottleAll,
      6 => ROp::Sample,
      7 => ROp::BufferTime,
      _ => ROp::BufferCountTime(rng.range(1, 3)),
    };
    let timed_op = matches!(op, ROp::Debounce | ROp::ThrottleLeading | ROp::ThrottleTailing | ROp::ThrottleAll);
    // a zero-length window for debounce / throttle (a periodic sampler or buffer
    // timer of period zero would never let the executor go idle)
    let w = if timed_op && rng.chance(1, 8) { 0 } else { *rng.pick(&[2u32, 5, 2, 5, 1000, 1003]) };
    let deep = deepen(rng, tier);
    let n = rng.range(1, 10 * deep);
    let mut steps = Vec::new();
    for i in 0..n {
      // gaps shorter than, equal to and longer than the window
      let gap = *rng.pick(&[0, 1, w.saturating_sub(1), w, w, w + 1, 2 * w, 2 * w + 1]);
      let last = i + 1 == n;
      let ev = if last {
        match rng.below(4) {
          0 => In::Next,
          1 | 2 => In::Complete,
          _ => In::Error,
        }
      } else {
        In::Next
      };
      steps.push(Step { gap, ev, timer_first: rng.chance(1, 2) });
    }
    let is_throttle = matches!(op, ROp::ThrottleLeading | ROp::ThrottleTailing | ROp::ThrottleAll);
    let w2 = if is_throttle && rng.chance(1, 4) { Some(*rng.pick(&[0u32, 1, 3, 7])) } else { None };
    let twin = if rng.chance(1, 4) { rng.range(1, 2) as u8 } else { 0 };
    serde_json::to_value(Case { op, w, shared_sched: rng.chance(1, 3), steps, w2, twin }).unwrap()
  }

  fn run(&self, case: &Value) -> Result<Outcome, String> {
    let case: Case = serde_json::from_value(case.clone()).map_err(|e| e.to_string())?;
    let timed_op = matches!(case.op, ROp::Debounce | ROp::ThrottleLeading | ROp::ThrottleTailing | ROp::ThrottleAll);
    if (case.w == 0 && !timed_op) || case.w > 5000 || case.steps.len() > 20 || matches!(case.op, ROp::BufferCountTime(0)) || case.twin > 2 {
      return Err("bad shape".into());
    }
    let wd = World::new();
    let log = ProbeLog::new(false);
    let p = Probe(log.clone());
    let mut hot = SubjectThreads::<Val, E>::default();
    let dur = Duration::from_millis(case.w as u64);
    macro_rules! build {
      ($s:expr) => {{
        let s = $s;
        let src = hot.clone();
        let tw = case.twin;
        let b: Box<dyn std::any::Any> = match case.op {
          ROp::Debounce => sub_twin(src.debounce(dur, s), p, tw),
          ROp::ThrottleLeading | ROp::ThrottleTailing | ROp::ThrottleAll => {
            let edge = match case.op {
              ROp::ThrottleLeading => ThrottleEdge::leading(),
              ROp::ThrottleTailing => ThrottleEdge::tailing(),
              _ => ThrottleEdge::all(),
            };
            match case.w2 {
              // throttle_time boxes its selector (not Clone): the twin goes through
              // throttle with a constant selector, which is what throttle_time builds
              None if tw == 0 => Box::new(src.throttle_time(dur, edge, s).actual_subscribe(p)),
              None => sub_twin(src.throttle(move |_: &Val| dur, edge, s), p, tw),
              Some(w2) => {
                let d2 = Duration::from_millis(w2 as u64);
                sub_twin(src.throttle(move |v: &Val| if matches!(v, Val::I(i) if i % 2 == 0) { d2 } else { dur }, edge, s), p, tw)
              }
            }
          }
          ROp::Sample => sub_twin(src.sample_threads(observable::interval(dur, s).on_error_map(|_| 0)), p, tw),
          ROp::BufferTime => sub_twin(src.buffer_with_time(dur, s).map(Val::L), p, tw),
          ROp::BufferCountTime(c) => sub_twin(src.buffer_with_count_and_time(c, dur, s).map(Val::L), p, tw),
        };
        b
      }};
    }
    let _sub = if case.shared_sched { build!(shared_sched()) } else { build!(local_sched()) };
    let t_sub = wd.now();
    wd.run_ready_fifo(100);
    let w_ns = case.w as u64 * MS;
    let w2_ns = case.w2.map(|x| x as u64 * MS);
    let mut evs: Vec<(u64, Ev)> = Vec::new();
    let mut ties: Vec<usize> = Vec::new(); // indices of source events that hit a deadline exactly
    // events at an instant whose timers have already been fired (a second source
    // event at the same instant): there the timer side did go first
    let mut forced: Vec<usize> = Vec::new();
    let mut fired_at: Option<u64> = None;
    let mut trace = String::new();
    let mut t = t_sub;
    let mut n = 0i64;
    for (i, st) in case.steps.iter().enumerate() {
      t += st.gap as u64 * MS;
      // run promptly up to (not including) t
      loop {
        match wd.shared.next_deadline() {
          Some(d) if d < t => {
            wd.shared.advance_to(d.max(wd.now()));
            wd.run_ready_fifo(1000);
          }
          _ => break,
        }
      }
      let already = fired_at == Some(t);
      if already {
        forced.push(i);
      }
      let tie = !already && wd.shared.next_deadline() == Some(t);
      if tie {
        ties.push(i);
      }
      if tie && st.timer_first {
        wd.shared.advance_to(t);
        wd.run_ready_fifo(1000);
      } else {
        wd.shared.clock.store(t.max(wd.now()), std::sync::atomic::Ordering::SeqCst);
      }
      let ev = match st.ev {
        In::Next => {
          n += 1;
          Ev::Next(Val::I(n))
        }
        In::Complete => Ev::Complete,
        In::Error => Ev::Err(2),
      };
      evs.push((t, ev.clone()));
      trace.push_str(&format!("{}@{}{} ", fmt_ev(&ev), t / MS, if tie { if st.timer_first { "(tie:timer-first)" } else { "(tie:source-first)" } } else { "" }));
      match &ev {
        Ev::Next(v) => hot.next(v.clone()),
        Ev::Complete => hot.clone().complete(),
        Ev::Err(e) => hot.clone().error(*e),
      }
      wd.shared.advance_to(t);
      wd.run_ready_fifo(1000);
      fired_at = Some(t);
      if ev.is_terminal() {
        break;
      }
    }
    // quiescence: let three more windows pass
    let t_end = t + 3 * w_ns;
    loop {
      match wd.shared.next_deadline() {
        Some(d) if d <= t_end => {
          wd.shared.advance_to(d.max(wd.now()));
          wd.run_ready_fifo(1000);
        }
        _ => break,
      }
    }
    wd.shared.advance_to(t_end);
    wd.run_ready_fifo(1000);

    let recs = log.records();
    let got: Vec<Ev> = recs.iter().map(|r| r.ev.clone()).collect();
    let site = format!("{:?}", case.op).split('(').next().unwrap().to_string();
    let mut violation: Option<Violation> = None;
    // ---- universal oracle
    let src_items: Vec<i64> = evs.iter().filter_map(|(_, e)| if let Ev::Next(Val::I(i)) = e { Some(*i) } else { None }).collect();
    let mut flat: Vec<i64> = Vec::new();
    for e in &got {
      if let Ev::Next(v) = e {
        if let Val::L(l) = v {
          if l.is_empty() {
            violation = Some(Violation { rule: "c09.empty-buffer".into(), site: site.clone(), detail: format!("`{}` => [{}]", trace.trim(), fmt_trace(&got)) });
          }
          if let ROp::BufferCountTime(c) = case.op {
            if l.len() > c {
              violation = Some(Violation { rule: "c09.buffer-over-count".into(), site: site.clone(), detail: format!("`{}` => [{}]", trace.trim(), fmt_trace(&got)) });
            }
          }
        }
        v.leaves(&mut flat);
      }
    }
    if violation.is_none() {
      if let Some(i) = grammar_violation(&got) {
        violation = Some(Violation { rule: "c09.grammar".into(), site: site.clone(), detail: format!("`{}`: event #{} after terminal: [{}]", trace.trim(), i, fmt_trace(&got)) });
      }
    }
    if violation.is_none() {
      // each output is a source item, at most once, in source order
      let mut last = 0i64;
      for x in &flat {
        if !src_items.contains(x) {
          violation = Some(Violation { rule: "c09.invented".into(), site: site.clone(), detail: format!("`{}`: delivered {} which the source never produced: [{}]", trace.trim(), x, fmt_trace(&got)) });
          break;
        }
        if *x == last || flat.iter().filter(|y| *y == x).count() > 1 {
          violation = Some(Violation { rule: "c09.duplicate".into(), site: site.clone(), detail: format!("`{}`: item {} delivered more than once: [{}]", trace.trim(), x, fmt_trace(&got)) });
          break;
        }
        if *x < last {
          violation = Some(Violation { rule: "c09.reordered".into(), site: site.clone(), detail: format!("`{}`: [{}]", trace.trim(), fmt_trace(&got)) });
          break;
        }
        last = *x;
      }
    }
    let is_buffer = matches!(case.op, ROp::BufferTime | ROp::BufferCountTime(_));
    let source_completed = evs.iter().any(|(_, e)| *e == Ev::Complete);
    if violation.is_none() && is_buffer && source_completed && flat != src_items {
      violation = Some(Violation { rule: "c09.buffers-not-whole-source".into(), site: site.clone(), detail: format!("`{}`: source completed; buffers [{}] do not concatenate to the source sequence", trace.trim(), fmt_trace(&got)) });
    }
    // buffers are delivered in source order and each item at most once, so an
    // item skipped now can never be delivered later: a gap contradicts "when
    // the source completes their concatenation is the whole source sequence"
    // for the continuation of this script that completes
    if violation.is_none() && is_buffer && !src_items.starts_with(&flat) {
      violation = Some(Violation { rule: "c09.buffer-gap".into(), site: site.clone(), detail: format!("`{}`: buffers [{}] skip a source item", trace.trim(), fmt_trace(&got)) });
    }
    // ---- timed oracle (debounce and throttle only: the statement fixes *when*
    // they deliver; for sample and the buffers it fixes only the rules above),
    // tolerant on exact ties: some assignment of tie orders must explain the output
    if violation.is_none() && matches!(case.op, ROp::Debounce | ROp::ThrottleLeading | ROp::ThrottleTailing | ROp::ThrottleAll) {
      let nt = ties.len().min(6);
      let mut explained = false;
      let mut first_exp = String::new();
      for mask in 0..(1u32 << nt) {
        let tie_fn = |i: usize| match ties.iter().position(|x| *x == i) {
          Some(p) if p < nt => mask & (1 << p) != 0,
          Some(_) => case.steps[i].timer_first,
          None => forced.contains(&i),
        };
        let exp = model(&case.op, w_ns, w2_ns, t_sub, &evs, &tie_fn, t_end);
        if mask == 0 {
          first_exp = exp.iter().map(|(e, t)| format!("{}@{}", fmt_ev(e), t / MS)).collect::<Vec<_>>().join(" ");
        }
        if exp.len() == recs.len() && exp.iter().zip(recs.iter()).all(|((e, tmin), r)| *e == r.ev && r.t >= *tmin) {
          explained = true;
          break;
        }
      }
      if !explained {
        violation = Some(Violation {
          rule: "c09.timed-model".into(),
          site: site.clone(),
          detail: format!(
            "window {}ms, `{}`: delivered [{}]; the definition gives [{}] (or a variant differing only in how the {} exact tie(s) are resolved)",
            case.w,
            trace.trim(),
            recs.iter().map(|r| format!("{}@{}", fmt_ev(&r.ev), r.t / MS)).collect::<Vec<_>>().join(" "),
            first_exp,
            ties.len()
          ),
        });
      }
    }
    let mut h = hash_str(&trace);
    for r in &recs {
      h = hash_mix(h, hash_str(&fmt_ev(&r.ev)) ^ r.t);
    }
    let sample = format!("{} w={}ms: {} => {}", site, case.w, trace.trim(), recs.iter().map(|r| format!("{}@{}", fmt_ev(&r.ev), r.t / MS)).collect::<Vec<_>>().join(" "));
    let sim = wd.now();
    drop(_sub);
    drop(wd);
    Ok(Outcome {
      violation,
      trace_hash: h,
      nontrivial: case.steps.len() >= 2,
      sim_ns: sim,
      steps: case.steps.len() as u64,
      faults: vec![("same_instant_tie(source event on a timer deadline)", ties.len() as u64)],
      reach: vec![("source_event_exactly_on_deadline", ties.len() as u64)],
      resolved: None,
      sample,
    })
  }
}

pub fn check_def() -> PropertyCheck {
  PropertyCheck {
    id: "C09",
    scenarios: vec![Box::new(C09), Box::new(C09Threads)],
    runs: (300_000, 30_000_000),
    rule: "case = operator (debounce, throttle_time leading|tailing|all, sample(interval), buffer_with_time, buffer_with_count_and_time) x window {2,5}ms x timed script of <=10 source events with gaps shorter than / equal to / longer than the window and a terminal, each exact tie with a timer deadline run in a chosen order; executor runs as timers fall due; non-trivial = >=2 source events; distinct = distinct (case, behaviour) hashes",
    assumptions: vec!["exact ties between a source event and a timer deadline may be resolved either way (every assignment is tried)"],
  }
}

// ------------------------------------------------------------------ threads

use crate::threadsim::*;
use std::sync::atomic::Ordering::SeqCst;

#[derive(Clone, Debug, Serialize, Deserialize, PartialEq)]
pub enum EOp {
  Emit,
  /// let virtual time pass (timers fire, pool workers run their tasks concurrently)
  Sleep(u8),
}

#[derive(Clone, Debug, Serialize, Deserialize)]
pub struct TCase {
  op: ROp,
  w: u32,
  script: Vec<EOp>,
  complete: bool,
  workers: usize,
  sched: SchedSpec,
}

/// Thread arm: the source emits on a caller thread while the operator's timer
/// tasks run on pool workers; only the universal half of the property is
/// judged (no timing expectations).
pub struct C09Threads;
impl Scenario for C09Threads {
  fn name(&self) -> &'static str {
    "c09.threads"
  }
  fn weight(&self) -> usize {
    1
  }
  fn components(&self) -> (&'static [&'static str], &'static [&'static str]) {
    (&["debounce / throttle_time / sample / buffer_with_time / buffer_with_count_and_time with their timer tasks on pool workers racing the emitting thread"], &["OS thread scheduling (baton), pool workers, timer, clock (sim)"])
  }
  fn generate(&self, rng: &mut Rng, _tier: Tier) -> Value {
    let op = match rng.below(7) {
      0 => ROp::Debounce,
      1 => ROp::ThrottleAll,
      2 => ROp::ThrottleTailing,
      3 => ROp::Sample,
      4 | 5 => ROp::BufferTime,
      _ => ROp::BufferCountTime(rng.range(1, 3)),
    };
    let w = *rng.pick(&[1u32, 2]);
    let mut script = Vec::new();
    for _ in 0..rng.range(2, 6) {
      script.push(if rng.chance(2, 3) { EOp::Emit } else { EOp::Sleep(*rng.pick(&[1u8, 2, 3])) });
    }
    let strategy = match rng.below(3) {
      0 => Strategy::Random,
      1 => Strategy::Seq { den: 3 },
      _ => Strategy::Pct { d: rng.range(1, 3) as u8, k: 60 },
    };
    serde_json::to_value(TCase { op, w, script, complete: rng.chance(3, 4), workers: rng.range(1, 2), sched: SchedSpec::Seeded { seed: rng.next_u64(), strategy } }).unwrap()
  }
  fn run(&self, case: &Value) -> Result<Outcome, String> {
    let case: TCase = serde_json::from_value(case.clone()).map_err(|e| e.to_string())?;
    if case.w == 0 || case.w > 20 || case.script.len() > 12 || case.workers == 0 || case.workers > 3 || matches!(case.op, ROp::BufferCountTime(0)) {
      return Err("bad shape".into());
    }
    let shr = Shared::new();
    let wd = World::with_shared(shr.clone());
    let log = ProbeLog::new(true);
    let p = Probe(log.clone());
    let hot = SubjectThreads::<Val, E>::default();
    let dur = Duration::from_millis(case.w as u64);
    let ts = TSim::new(shr.clone(), &case.sched, 1, case.workers, 40_000);
    let s = shared_sched();
    let sub: Box<dyn std::any::Any + Send> = ts.with_pool(|| {
      let src = hot.clone();
      match case.op {
        ROp::Debounce => Box::new(src.debounce(dur, s).actual_subscribe(p)) as Box<dyn std::any::Any + Send>,
        ROp::ThrottleLeading => Box::new(src.throttle_time(dur, ThrottleEdge::leading(), s).actual_subscribe(p)),
        ROp::ThrottleTailing => Box::new(src.throttle_time(dur, ThrottleEdge::tailing(), s).actual_subscribe(p)),
        ROp::ThrottleAll => Box::new(src.throttle_time(dur, ThrottleEdge::all(), s).actual_subscribe(p)),
        ROp::Sample => Box::new(src.sample_threads(observable::interval(dur, s).take(12).on_error_map(|_| 0)).actual_subscribe(p)),
        ROp::BufferTime => Box::new(src.buffer_with_time(dur, s).map(Val::L).actual_subscribe(p)),
        ROp::BufferCountTime(c) => Box::new(src.buffer_with_count_and_time(c, dur, s).map(Val::L).actual_subscribe(p)),
      }
    });
    let emitted = std::sync::Arc::new(std::sync::Mutex::new(Vec::<i64>::new()));
    // (virtual time, event) of every source event, for the timed model
    let timeline = std::sync::Arc::new(std::sync::Mutex::new(Vec::<(u64, Ev)>::new()));
    let t_sub = shr.now();
    let mut bodies: Vec<Body> = Vec::new();
    {
      let mut hot = hot.clone();
      let script = case.script.clone();
      let complete = case.complete;
      let emitted = emitted.clone();
      let timeline = timeline.clone();
      bodies.push(Box::new(move || {
        let mut n = 0i64;
        for op in &script {
          match op {
            EOp::Emit => {
              n += 1;
              emitted.lock().unwrap().push(n);
              timeline.lock().unwrap().push((shared().now(), Ev::Next(Val::I(n))));
              hot.next(Val::I(n));
            }
            EOp::Sleep(ms) => harness_sleep_ms(*ms as u64),
          }
          harness_yield("between-ops");
        }
        if complete {
          timeline.lock().unwrap().push((shared().now(), Ev::Complete));
          hot.complete();
        }
      }));
    }
    let rep = ts.run(bodies);
    let recs = log.records();
    let got: Vec<Ev> = recs.iter().map(|r| r.ev.clone()).collect();
    let src_items = emitted.lock().unwrap().clone();
    let site = format!("{} (threads)", format!("{:?}", case.op).split('(').next().unwrap());
    let mut violation = None;
    if let Some(d) = &rep.deadlock {
      violation = Some(Violation { rule: "c09.deadlock".into(), site: site.clone(), detail: d.clone() });
    } else if rep.budget_overrun {
      violation = Some(Violation { rule: "c09.livelock".into(), site: site.clone(), detail: "step budget exhausted".into() });
    } else if let Some((t, m)) = rep.panics.first() {
      violation = Some(Violation { rule: "c09.panic".into(), site: site.clone(), detail: format!("thread {} panicked: {}", t, m) });
    } else if log.overlap.load(SeqCst) {
      violation = Some(Violation { rule: "c09.overlap".into(), site: site.clone(), detail: "subscriber entered on two threads at once".into() });
    } else if let Some(i) = grammar_violation(&got) {
      violation = Some(Violation { rule: "c09.grammar".into(), site: site.clone(), detail: format!("event #{} after terminal: [{}]", i, fmt_trace(&got)) });
    } else {
      let mut flat: Vec<i64> = Vec::new();
      for e in &got {
        if let Ev::Next(v) = e {
          if let Val::L(l) = v {
            if l.is_empty() {
              violation = Some(Violation { rule: "c09.empty-buffer".into(), site: site.clone(), detail: format!("[{}]", fmt_trace(&got)) });
            }
            if let ROp::BufferCountTime(c) = case.op {
              if l.len() > c {
                violation = Some(Violation { rule: "c09.buffer-over-count".into(), site: site.clone(), detail: format!("[{}]", fmt_trace(&got)) });
              }
            }
          }
          v.leaves(&mut flat);
        }
      }
      if violation.is_none() {
        let mut last = 0i64;
        for x in &flat {
          if !src_items.contains(x) {
            violation = Some(Violation { rule: "c09.invented".into(), site: site.clone(), detail: format!("delivered {} which the source never produced: [{}]", x, fmt_trace(&got)) });
            break;
          }
          if flat.iter().filter(|y| *y == x).count() > 1 {
            violation = Some(Violation { rule: "c09.duplicate".into(), site: site.clone(), detail: format!("item {} delivered more than once: [{}]", x, fmt_trace(&got)) });
            break;
          }
          if *x < last {
            violation = Some(Violation { rule: "c09.reordered".into(), site: site.clone(), detail: format!("[{}]", fmt_trace(&got)) });
            break;
          }
          last = *x;
        }
      }
      let is_buffer = matches!(case.op, ROp::BufferTime | ROp::BufferCountTime(_));
      if violation.is_none() && case.complete && !got.contains(&Ev::Complete) {
        violation = Some(Violation { rule: "c09.completion-lost".into(), site: site.clone(), detail: format!("the source completed and every thread returned, the subscriber saw [{}]", fmt_trace(&got)) });
      }
      if violation.is_none() && is_buffer && case.complete && flat != src_items {
        violation = Some(Violation {
          rule: "c09.buffers-not-whole-source".into(),
          site: site.clone(),
          detail: format!("source emitted {:?} and completed; buffers [{}] do not concatenate to it", src_items, fmt_trace(&got)),
        });
      }
    }
    // timed model for debounce and throttle: virtual time only advances while
    // every thread is blocked, so a timer can race a source event only at the
    // instant it falls due - an exact tie, and either order is accepted
    if violation.is_none() && matches!(case.op, ROp::Debounce | ROp::ThrottleLeading | ROp::ThrottleTailing | ROp::ThrottleAll) {
      let evs = timeline.lock().unwrap().clone();
      let t_end = shr.now();
      let w_ns = case.w as u64 * MS;
      let nt = evs.len().min(10);
      let mut explained = false;
      let mut first_exp = String::new();
      for mask in 0..(1u32 << nt) {
        let tie_fn = |i: usize| i < nt && mask & (1 << i) != 0;
        let exp = model(&case.op, w_ns, None, t_sub, &evs, &tie_fn, t_end);
        if mask == 0 {
          first_exp = exp.iter().map(|(e, t)| format!("{}@{}", fmt_ev(e), t / MS)).collect::<Vec<_>>().join(" ");
        }
        if exp.len() == recs.len() && exp.iter().zip(recs.iter()).all(|((e, tmin), r)| *e == r.ev && r.t >= *tmin) {
          explained = true;
          break;
        }
      }
      if !explained && matches!(case.op, ROp::ThrottleTailing | ROp::ThrottleAll) {
        'outer: for hmask in 1..(1u32 << nt) {
          for mask in 0..(1u32 << nt) {
            if mask & hmask != 0 {
              continue;
            }
            let tie_fn = |i: usize| i < nt && mask & (1 << i) != 0;
            let hy_fn = |i: usize| i < nt && hmask & (1 << i) != 0;
            let exp = model_h(&case.op, w_ns, None, t_sub, &evs, &tie_fn, &hy_fn, t_end);
            if exp.len() == recs.len() && exp.iter().zip(recs.iter()).all(|((e, tmin), r)| *e == r.ev && r.t >= *tmin) {
              explained = true;
              break 'outer;
            }
          }
        }
      }
      if !explained {
        violation = Some(Violation {
          rule: "c09.timed-model".into(),
          site: site.clone(),
          detail: format!(
            "window {}ms, source `{}`: delivered [{}]; the definition gives [{}] (or a variant differing only in the order of a source event and a timer falling due at the same instant)",
            case.w,
            evs.iter().map(|(t, e)| format!("{}@{}", fmt_ev(e), t / MS)).collect::<Vec<_>>().join(" "),
            recs.iter().map(|r| format!("{}@{}", fmt_ev(&r.ev), r.t / MS)).collect::<Vec<_>>().join(" "),
            first_exp
          ),
        });
      }
    }
    let mut resolved = case.clone();
    resolved.sched = SchedSpec::Explicit(rep.decisions.clone());
    let mut h = rep.trace_hash;
    for r in &recs {
      h = hash_mix(h, hash_str(&fmt_ev(&r.ev)) ^ (r.tid as u64) << 32);
    }
    let sim = shr.now();
    let _ = std::panic::catch_unwind(std::panic::AssertUnwindSafe(|| {
      drop(sub);
      drop(hot);
      drop(wd);
    }));
    Ok(Outcome {
      violation,
      trace_hash: h,
      nontrivial: rep.multi_choice > 0,
      sim_ns: sim,
      steps: rep.steps,
      faults: vec![("preemption_at_lock_point", rep.preemptions), ("lock_contention", rep.contentions)],
      reach: vec![("try_lock_contention_observed", (rep.contentions > 0) as u64)],
      resolved: Some(serde_json::to_value(resolved).unwrap()),
      sample: format!("{} w={}ms script={:?} complete={} workers={} decisions={} => {}", site, case.w, case.script, case.complete, case.workers, rep.decisions.len(), recs.iter().map(|r| format!("{}@{}/t{}", fmt_ev(&r.ev), r.t / MS, r.tid)).collect::<Vec<_>>().join(" ")),
    })
  }
}
