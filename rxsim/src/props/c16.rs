//! C16 — ending a stream early retires the producers that feed it.

use crate::ast::*;
use crate::framework::*;
use crate::pipe::*;
use crate::probe::*;
use crate::rng::Rng;
use crate::world::MS;
use serde_json::Value;

pub struct C16;

fn max_dur_ms(n: &Node) -> u64 {
  fn u(op: &UOp) -> u64 {
    match op {
      UOp::Delay(d) | UOp::DelaySubscription(d) | UOp::Debounce(d) | UOp::BufferTime(d) | UOp::SampleInterval(d) => *d as u64,
      UOp::Throttle(w, _) | UOp::BufferCountTime(_, w) => *w as u64,
      UOp::DelayAt(off) | UOp::DelaySubscriptionAt(off) => (*off).max(0) as u64,
      _ => 0,
    }
  }
  match n {
    Node::U(op, s) => u(op).max(max_dur_ms(s)),
    Node::Defer(s) => max_dur_ms(s),
    Node::IntervalAt { off, p, .. } | Node::TickerAt { off, p } => (*p as u64).max((*off).max(0) as u64),
    Node::TimerAt { off } => (*off).max(0) as u64,
    Node::B(_, a, b) => max_dur_ms(a).max(max_dur_ms(b)),
    Node::Flat { outer, inners, .. } => inners.iter().map(max_dur_ms).fold(max_dur_ms(outer), u64::max),
    Node::Interval { p, .. } | Node::Ticker { p } => *p as u64,
    Node::Timer { d } => *d as u64,
    _ => 0,
  }
}

impl Scenario for C16 {
  fn name(&self) -> &'static str {
    "c16.des"
  }
  fn weight(&self) -> usize {
    3
  }
  fn components(&self) -> (&'static [&'static str], &'static [&'static str]) {
    (
      &["Observer::is_finished of every operator observer on the path", "observable/interval.rs + RepeatTask (poll is_finished before each tick)", "observable/from_iter.rs", "observable/from_stream.rs driver loop", "take/first/element_at/take_while/contains/all/take_until"],
      &["executor (FIFO, runs as timers fall due), timer, clock (sim)", "counting iterator / counting stream (harness)"],
    )
  }
  fn generate(&self, rng: &mut Rng, tier: Tier) -> Value {
    let n_hot = rng.range(1, 2);
    let cfg = GenCfg {
      max_depth: if tier == Tier::Quick { 3 } else { 4 },
      n_hot,
      sched_weight: 1,
      // share() is part of the catalogue: the early terminator's "finished" does not
      // travel through its inner subject (open known finding, sites with Share)
      exclude: vec![],
      allow_flat: true,
      producer_leaves: true,
    };
    let root = loop {
      let sub = gen_node(rng, &cfg, 1);
      let small = rng.below(3) as u8;
      let r = match rng.below(8) {
        0 | 1 => Node::U(UOp::Take(small + 1), Box::new(sub)),
        2 => Node::U(UOp::First, Box::new(sub)),
        3 => Node::U(UOp::ElementAt(small), Box::new(sub)),
        4 => Node::U(UOp::TakeWhile(small + 2), Box::new(sub)),
        5 => Node::U(UOp::Contains(small), Box::new(sub)),
        6 => Node::U(UOp::All(small + 3), Box::new(sub)),
        _ => Node::B(BOp::TakeUntil, Box::new(sub), Box::new(Node::Hot(0))),
      };
      let names = r.op_names();
      if r.valid(0) && r.size() <= 16 && names.iter().any(|n| matches!(n.as_str(), "Ticker" | "TickerAt" | "PullIter" | "PollStream" | "PollStreamR")) {
        break r;
      }
    };
    let acts = gen_script(rng, n_hot, true, &ScriptCfg { len: (4, 30), cut: (0, 1), post_terminal: true });
    serde_json::to_value(PCase { threads_flavour: rng.chance(1, 2), fifo: true, n_hot, root, acts, sub_at: 0, closure_subscriber: false, sub_style: 0, finish_after: 0, panic_at: 0, guard_unwinds: false }).unwrap()
  }
  fn run(&self, case: &Value) -> Result<Outcome, String> {
    let case: PCase = serde_json::from_value(case.clone()).map_err(|e| e.to_string())?;
    if !case.fifo {
      return Err("c16 runs FIFO".into());
    }
    let run = run_pipeline(&case)?;
    let site = format!("{}", case.root.op_names().join("+"));
    let mut violation = None;
    let term = run.recs.iter().find(|r| r.ev.is_terminal());
    if let Some(p) = &run.panic {
      // the simulator's own resource budget is not a finding
      if !p.contains("WouldHang") {
        violation = Some(Violation { rule: "c16.panic".into(), site: site.clone(), detail: p.clone() });
      }
    } else if let Some(t) = term {
      if !run.idle || run.live_tasks_end > 0 || run.live_timers_end > 0 {
        violation = Some(Violation {
          rule: "c16.producer-not-retired".into(),
          site: site.clone(),
          detail: format!(
            "`{}`: the subscriber got its terminal at {}ms but the executor is still not idle 2 virtual seconds after the script ended ({} live task(s), {} armed timer(s)): running a scheduler until idle would not terminate",
            run.trace.trim(),
            t.t / MS,
            run.live_tasks_end,
            run.live_timers_end
          ),
        });
      } else if run.idle_at.map_or(false, |i| i > run.script_end_ns.max(t.t) + 100 * MS) {
        // every timer in a generated pipeline is <= 5 ms: 100 ms after the later
        // of the terminal and the last scripted event only a producer that was
        // not retired (or was started for nobody) can still be at work
        violation = Some(Violation {
          rule: "c16.producer-not-retired".into(),
          site: site.clone(),
          detail: format!(
            "`{}`: the subscriber got its terminal at {}ms and the script ended at {}ms, yet the executor only became idle at {}ms (all periods and delays in the pipeline are <= 5ms)",
            run.trace.trim(),
            t.t / MS,
            run.script_end_ns / MS,
            run.idle_at.unwrap() / MS
          ),
        });
      } else if run.ticks.iter().filter(|s| **s > t.seq_out).count() > 0 {
        violation = Some(Violation {
          rule: "c16.ticked-after-terminal".into(),
          site: site.clone(),
          detail: format!(
            "`{}`: {} interval tick(s) were produced after the subscriber's terminal had been delivered (a repeating source asks whether its subscriber has finished before each emission: its task may linger for one period, it does not emit any more)",
            run.trace.trim(),
            run.ticks.iter().filter(|s| **s > t.seq_out).count()
          ),
        });
      } else {
        let late_pulls = run.pulls.iter().filter(|s| **s > t.seq_out).count();
        let late_polls = run.polls.iter().filter(|s| **s > t.seq_out).count();
        if late_pulls > 0 {
          violation = Some(Violation {
            rule: "c16.iterator-pulled-after-terminal".into(),
            site: site.clone(),
            detail: format!("`{}`: the iterator source was pulled {} more time(s) after the subscriber's terminal had been delivered", run.trace.trim(), late_pulls),
          });
        } else if late_polls > 1 {
          violation = Some(Violation {
            rule: "c16.stream-polled-after-terminal".into(),
            site: site.clone(),
            detail: format!("`{}`: the stream source was polled {} more time(s) after the subscriber's terminal had been delivered", run.trace.trim(), late_polls),
          });
        }
      }
    }
    // tasks spawned after the subscriber's terminal in runs where nothing was
    // emitted into a hot input afterwards: work started for nobody
    let late_spawns = match term {
      Some(t) if !run.emit_stamps.iter().any(|s| *s >= t.seq_out) => run.spawn_stamps.iter().filter(|s| **s > t.seq_out).count() as u64,
      _ => 0,
    };
    // inner observables of a flattening operator subscribed after the terminal,
    // beyond those whose outer item itself only arrived after the terminal (an
    // item in flight in a delay / observe_on task): they had been waiting for a
    // slot and were started for nobody
    let late_inner_subs = match term {
      Some(t) => (run.inner_sub_stamps.iter().filter(|s| **s > t.seq_out).count() as u64).saturating_sub(run.inner_build_stamps.iter().filter(|s| **s > t.seq_out).count() as u64),
      _ => 0,
    };
    if violation.is_none() && late_inner_subs > 0 {
      violation = Some(Violation {
        rule: "c16.queued-inner-started-after-terminal".into(),
        site: site.clone(),
        detail: format!("`{}`: {} inner observable(s) that had been waiting for a slot of the flattening operator were subscribed after the subscriber's terminal had been delivered", run.trace.trim(), late_inner_subs),
      });
    }
    let evs: Vec<Ev> = run.recs.iter().map(|r| r.ev.clone()).collect();
    let mut h = hash_str(&run.trace);
    for r in &run.recs {
      h = hash_mix(h, hash_str(&fmt_ev(&r.ev)) ^ r.t);
    }
    h = hash_mix(h, run.pulls.len() as u64 * 131 + run.polls.len() as u64);
    Ok(Outcome {
      violation,
      trace_hash: h,
      nontrivial: term.is_some(),
      sim_ns: run.sim_ns,
      steps: case.acts.len() as u64,
      faults: vec![("early_termination_reached", term.is_some() as u64), ("clock_jump_over_2_deadlines", run.clock_jumps)],
      reach: vec![("probe_terminated_with_unbounded_producer_upstream", term.is_some() as u64), ("info:tasks_spawned_after_the_terminal(no hot emission afterwards)", late_spawns), ("info:queued_inner_observables_started_after_the_terminal", late_inner_subs)],
      resolved: None,
      sample: format!(
        "{} {}: {} => [{}] idle={} idle_at={:?}ms pulls={} polls={}",
        if case.threads_flavour { "threads" } else { "local" },
        serde_json::to_string(&case.root).unwrap_or_default(),
        run.trace.trim(),
        fmt_trace(&evs),
        run.idle,
        run.idle_at.map(|t| t / MS),
        run.pulls.len(),
        run.polls.len()
      ),
    })
  }
}

pub fn check_def() -> PropertyCheck {
  PropertyCheck {
    id: "C16",
    scenarios: vec![
      Box::new(C16),
      Box::new(crate::props::c02t::C16Threads),
    ],
    runs: (200_000, 8_000_000),
    rule: "case = early terminator (take, first, element_at, take_while, contains, all, take_until) over a random operator tree (depth <=3/4, catalogue minus share) whose leaves are unbounded interval / interval_at / counting from_iter / counting from_stream / counting from_stream_result producers and hot inputs - so the producer sits in main and in notifier/secondary positions of the two-input operators - driven by a script and then run to idle on a FIFO prompt executor; non-trivial = the subscriber saw its terminal",
    assumptions: vec!["a violation in a tree that contains share() is attributed to the open share finding (is_finished does not travel through the shared subject)"],
  }
}
