//! The one PRNG of the simulator: xoshiro256** seeded through splitmix64.
//! Every random choice of a run is drawn from an instance of this, itself
//! derived from VERIF_SEED, the property id and the run index.

#[derive(Clone, Debug)]
pub struct Rng {
  s: [u64; 4],
}

pub fn splitmix64(x: &mut u64) -> u64 {
  *x = x.wrapping_add(0x9E37_79B9_7F4A_7C15);
  let mut z = *x;
  z = (z ^ (z >> 30)).wrapping_mul(0xBF58_476D_1CE4_E5B9);
  z = (z ^ (z >> 27)).wrapping_mul(0x94D0_49BB_1331_11EB);
  z ^ (z >> 31)
}

/// Seed of run `index` of the batch `tag` under the master seed.
pub fn derive_seed(master: u64, tag: &str, index: u64) -> u64 {
  let mut h: u64 = master ^ 0xA076_1D64_78BD_642F;
  for b in tag.bytes() {
    h = (h ^ b as u64).wrapping_mul(0x1000_0000_01B3);
  }
  let mut x = h ^ index.wrapping_mul(0xD6E8_FEB8_6659_FD93);
  splitmix64(&mut x);
  splitmix64(&mut x)
}

impl Rng {
  pub fn new(seed: u64) -> Self {
    let mut x = seed;
    let s = [
      splitmix64(&mut x),
      splitmix64(&mut x),
      splitmix64(&mut x),
      splitmix64(&mut x),
    ];
    Rng { s }
  }

  pub fn next_u64(&mut self) -> u64 {
    let r = self.s[1].wrapping_mul(5).rotate_left(7).wrapping_mul(9);
    let t = self.s[1] << 17;
    self.s[2] ^= self.s[0];
    self.s[3] ^= self.s[1];
    self.s[1] ^= self.s[2];
    self.s[0] ^= self.s[3];
    self.s[2] ^= t;
    self.s[3] = self.s[3].rotate_left(45);
    r
  }

  /// uniform in 0..n (n > 0)
  pub fn below(&mut self, n: usize) -> usize {
    debug_assert!(n > 0);
    ((self.next_u64() >> 11) % n as u64) as usize
  }

  /// uniform in lo..=hi
  pub fn range(&mut self, lo: usize, hi: usize) -> usize {
    lo + self.below(hi - lo + 1)
  }

  /// true with probability num/den
  pub fn chance(&mut self, num: usize, den: usize) -> bool {
    self.below(den) < num
  }

  pub fn pick<'a, T>(&mut self, xs: &'a [T]) -> &'a T {
    &xs[self.below(xs.len())]
  }

  /// index drawn with the given integer weights
  pub fn weighted(&mut self, weights: &[usize]) -> usize {
    let total: usize = weights.iter().sum();
    let mut x = self.below(total.max(1));
    for (i, w) in weights.iter().enumerate() {
      if x < *w {
        return i;
      }
      x -= *w;
    }
    weights.len() - 1
  }

  pub fn fork(&mut self) -> Rng {
    Rng::new(self.next_u64())
  }
}
