//! Batch runner, replay files, generic JSON shrinker, known findings, evidence.

use crate::rng::{derive_seed, Rng};
use serde::{Deserialize, Serialize};
use serde_json::{json, Value};
use std::collections::{BTreeMap, HashSet};
use std::panic::{catch_unwind, AssertUnwindSafe};
use std::sync::atomic::{AtomicBool, AtomicUsize, Ordering::SeqCst};
use std::sync::Mutex;
use std::time::Instant;

#[derive(Clone, Copy, Debug, PartialEq, Eq)]
pub enum Tier {
  Quick,
  Thorough,
}

impl Tier {
  pub fn name(self) -> &'static str {
    match self {
      Tier::Quick => "quick",
      Tier::Thorough => "thorough",
    }
  }
}

#[derive(Clone, Debug, Serialize, Deserialize, PartialEq)]
pub struct Violation {
  /// which oracle rule failed (stable identifier)
  pub rule: String,
  /// what is left to discriminate the failure: operator / call site / config
  pub site: String,
  /// human readable account
  pub detail: String,
}

#[derive(Default)]
pub struct Outcome {
  pub violation: Option<Violation>,
  /// hash of everything observable in the run (event logs, decisions)
  pub trace_hash: u64,
  /// at least one fault fired or one scheduling decision had > 1 option
  pub nontrivial: bool,
  pub sim_ns: u64,
  pub steps: u64,
  /// fault kinds that actually fired in this run, with counts
  pub faults: Vec<(&'static str, u64)>,
  /// reach probes hit in this run
  pub reach: Vec<(&'static str, u64)>,
  /// the case with every choice resolved (explicit schedule); None = as given
  pub resolved: Option<Value>,
  /// short human-readable rendering of what happened (for evidence samples)
  pub sample: String,
}

pub trait Scenario: Sync {
  fn name(&self) -> &'static str;
  /// relative share of the property's run budget
  fn weight(&self) -> usize {
    1
  }
  fn generate(&self, rng: &mut Rng, tier: Tier) -> Value;
  /// Execute the case against the real code. `Err` = not a valid case (only
  /// shrinker candidates can be invalid).
  fn run(&self, case: &Value) -> Result<Outcome, String>;
  /// real components / stubs exercised
  fn components(&self) -> (&'static [&'static str], &'static [&'static str]) {
    (&[], &[])
  }
}

/// A scenario shared with another property: only the rules that belong to the
/// statement of the property being checked are judged here (`keep` = rule
/// suffixes); what the scenario finds beyond them is the other property's
/// business and is reported by that property's check.
pub struct OnlyRules {
  pub inner: Box<dyn Scenario>,
  pub keep: &'static [&'static str],
}

impl Scenario for OnlyRules {
  fn name(&self) -> &'static str {
    self.inner.name()
  }
  fn weight(&self) -> usize {
    self.inner.weight()
  }
  fn generate(&self, rng: &mut Rng, tier: Tier) -> Value {
    self.inner.generate(rng, tier)
  }
  fn run(&self, case: &Value) -> Result<Outcome, String> {
    let mut o = self.inner.run(case)?;
    let other = match &o.violation {
      Some(v) => !self.keep.iter().any(|k| v.rule.ends_with(k)),
      None => false,
    };
    if other {
      o.violation = None;
    }
    o.reach.push(("info:run_violating_only_a_rule_of_the_scenario's_home_property", other as u64));
    Ok(o)
  }
  fn components(&self) -> (&'static [&'static str], &'static [&'static str]) {
    self.inner.components()
  }
}

/// Thorough tier: one case in three is drawn with doubled size bounds (longer
/// scripts, more inner observables / tasks) - returns the multiplier.
pub fn deepen(rng: &mut Rng, tier: Tier) -> usize {
  if tier == Tier::Thorough && rng.chance(1, 3) {
    2
  } else {
    1
  }
}

pub struct PropertyCheck {
  pub id: &'static str,
  pub scenarios: Vec<Box<dyn Scenario>>,
  /// total runs (quick, thorough)
  pub runs: (u64, u64),
  pub rule: &'static str,
  pub assumptions: Vec<&'static str>,
}

#[derive(Clone, Debug, Deserialize)]
pub struct KnownEntry {
  pub status: String, // "open" | "fixed"
  pub property: String,
  #[serde(default)]
  pub scenario: Option<String>,
  pub rule: String,
  #[serde(default)]
  pub site_contains: Vec<String>,
  pub what: String,
  #[serde(default)]
  pub commit: Option<String>,
}

pub fn load_known(verif_dir: &str) -> Vec<KnownEntry> {
  let p = format!("{}/known_findings.json", verif_dir);
  match std::fs::read_to_string(&p) {
    Ok(s) => {
      let v: Value = serde_json::from_str(&s).expect("known_findings.json is not JSON");
      serde_json::from_value(v["findings"].clone()).expect("known_findings.json: bad entries")
    }
    Err(_) => Vec::new(),
  }
}

fn match_known<'a>(known: &'a [KnownEntry], prop: &str, scen: &str, v: &Violation) -> Option<&'a KnownEntry> {
  known.iter().find(|k| {
    k.status == "open"
      && k.property == prop
      && k.scenario.as_deref().map_or(true, |s| s == scen)
      && k.rule == v.rule
      && k.site_contains.iter().all(|s| v.site.contains(s.as_str()))
  })
}

pub fn hash_str(s: &str) -> u64 {
  let mut h: u64 = 0xcbf29ce484222325;
  for b in s.bytes() {
    h = (h ^ b as u64).wrapping_mul(0x100000001b3);
  }
  h
}

pub fn hash_mix(h: u64, x: u64) -> u64 {
  (h ^ x).wrapping_mul(0x100000001b3).rotate_left(17)
}

struct RunRecord {
  index: u64,
  seed: u64,
  case: Value,
  violation: Violation,
}

#[derive(Default)]
struct ScenStats {
  runs: u64,
  nontrivial: u64,
  sim_ns: u64,
  steps: u64,
  faults: BTreeMap<&'static str, u64>,
  reach: BTreeMap<&'static str, u64>,
  distinct_cases: HashSet<u64>,
  distinct_behaviours: HashSet<u64>,
  distinct_nontrivial: HashSet<u64>,
  samples: Vec<String>,
  violations: Vec<RunRecord>,
  violation_count: u64,
  harness_errors: Vec<String>,
}

fn workers() -> usize {
  std::env::var("VERIF_WORKERS").ok().and_then(|s| s.parse().ok()).unwrap_or_else(|| {
    std::thread::available_parallelism().map(|n| n.get()).unwrap_or(8).min(16)
  })
}

pub fn master_seed() -> u64 {
  std::env::var("VERIF_SEED").ok().and_then(|s| s.parse::<u64>().ok()).unwrap_or(20261003)
}

fn run_guarded(s: &dyn Scenario, case: &Value) -> Result<Outcome, String> {
  match catch_unwind(AssertUnwindSafe(|| s.run(case))) {
    Ok(r) => r,
    Err(p) => {
      let msg = crate::world::panic_message(&*p);
      // the simulator's own resource budget is a harness matter; every other panic
      // that escapes a scenario came out of the code under test (or shows that its
      // behaviour left what the oracle can digest): on the unchanged tree no run
      // panics, so it is reported as a violation, not swallowed as a harness error
      if matches!(p.downcast_ref::<crate::world::SimAbort>(), Some(crate::world::SimAbort::WouldHang) | Some(crate::world::SimAbort::Aborted)) {
        return Err(format!("HARNESS-PANIC: {}", msg));
      }
      let prefix = s.name().split('.').next().unwrap_or("run").to_string();
      Ok(Outcome {
        violation: Some(Violation { rule: format!("{}.panic", prefix), site: "uncaught panic".into(), detail: format!("the run panicked: {}", msg) }),
        trace_hash: hash_str(&msg),
        nontrivial: true,
        sim_ns: 0,
        steps: 0,
        faults: vec![],
        reach: vec![],
        resolved: None,
        sample: format!("panic: {}", msg),
      })
    }
  }
}

fn run_scenario(
  prop: &str,
  s: &dyn Scenario,
  n: u64,
  tier: Tier,
  master: u64,
  hash_out: Option<&Mutex<Vec<(u64, u64)>>>,
) -> ScenStats {
  let nw = workers().max(1);
  let next = AtomicUsize::new(0);
  let stop = AtomicBool::new(false);
  let merged = Mutex::new(ScenStats::default());
  let tag = format!("{}/{}", prop, s.name());
  const CHUNK: usize = 64;
  std::thread::scope(|sc| {
    for _ in 0..nw {
      sc.spawn(|| {
        crate::world::install_hooks();
        let mut st = ScenStats::default();
        let mut hashes = Vec::new();
        loop {
          let start = next.fetch_add(CHUNK, SeqCst) as u64;
          if start >= n || stop.load(SeqCst) {
            break;
          }
          for index in start..(start + CHUNK as u64).min(n) {
            let seed = derive_seed(master, &tag, index);
            let mut rng = Rng::new(seed);
            let case = s.generate(&mut rng, tier);
            if std::env::var("VERIF_DEBUG").is_ok() {
              eprintln!("run index={} seed={} case={}", index, seed, case);
            }
            match run_guarded(s, &case) {
              Err(e) => {
                st.harness_errors.push(format!("{} index={} seed={}: {}", tag, index, seed, e));
                stop.store(true, SeqCst);
                break;
              }
              Ok(o) => {
                st.runs += 1;
                st.sim_ns += o.sim_ns;
                st.steps += o.steps;
                for (k, c) in &o.faults {
                  *st.faults.entry(k).or_default() += c;
                }
                for (k, c) in &o.reach {
                  *st.reach.entry(k).or_default() += c;
                }
                let ch = hash_str(&case.to_string());
                st.distinct_cases.insert(ch);
                st.distinct_behaviours.insert(o.trace_hash);
                if o.nontrivial {
                  st.nontrivial += 1;
                  st.distinct_nontrivial.insert(hash_mix(ch, o.trace_hash));
                }
                if hash_out.is_some() {
                  hashes.push((index, hash_mix(ch, o.trace_hash)));
                }
                if index < 3 || (st.samples.len() < 2 && o.nontrivial) {
                  if !o.sample.is_empty() {
                    st.samples.push(format!("[{} #{}] {}", s.name(), index, o.sample));
                  }
                }
                if let Some(v) = o.violation {
                  st.violation_count += 1;
                  // keep the first few runs of every distinct signature, so that a
                  // frequent (known) violation cannot crowd out a rare new one
                  let same = st
                    .violations
                    .iter()
                    .filter(|r| r.violation.rule == v.rule && r.violation.site == v.site)
                    .count();
                  if same < 2 && st.violations.len() < 400 {
                    st.violations.push(RunRecord {
                      index,
                      seed,
                      case: o.resolved.unwrap_or(case),
                      violation: v,
                    });
                  }
                }
              }
            }
          }
        }
        let mut m = merged.lock().unwrap();
        m.runs += st.runs;
        m.nontrivial += st.nontrivial;
        m.sim_ns += st.sim_ns;
        m.steps += st.steps;
        for (k, c) in st.faults {
          *m.faults.entry(k).or_default() += c;
        }
        for (k, c) in st.reach {
          *m.reach.entry(k).or_default() += c;
        }
        m.distinct_cases.extend(st.distinct_cases);
        m.distinct_behaviours.extend(st.distinct_behaviours);
        m.distinct_nontrivial.extend(st.distinct_nontrivial);
        m.samples.extend(st.samples);
        m.violations.extend(st.violations);
        m.violation_count += st.violation_count;
        m.harness_errors.extend(st.harness_errors);
        if let Some(h) = hash_out {
          h.lock().unwrap().extend(hashes);
        }
      });
    }
  });
  let mut m = merged.into_inner().unwrap();
  m.violations.sort_by_key(|r| r.index);
  m.samples.sort();
  m.samples.truncate(4);
  m
}

// ------------------------------------------------------------------ shrinker

fn collect_paths(v: &Value, path: &mut Vec<PathSeg>, out: &mut Vec<(Vec<PathSeg>, Kind)>) {
  match v {
    Value::Array(a) => {
      out.push((path.clone(), Kind::Array(a.len())));
      for (i, x) in a.iter().enumerate() {
        path.push(PathSeg::Idx(i));
        collect_paths(x, path, out);
        path.pop();
      }
    }
    Value::Object(o) => {
      out.push((path.clone(), Kind::Object));
      for (k, x) in o.iter() {
        path.push(PathSeg::Key(k.clone()));
        collect_paths(x, path, out);
        path.pop();
      }
    }
    Value::Number(n) => {
      if let Some(u) = n.as_u64() {
        if u > 0 {
          out.push((path.clone(), Kind::Num(u)));
        }
      }
    }
    Value::Bool(true) => out.push((path.clone(), Kind::True)),
    _ => {}
  }
}

#[derive(Clone, Debug)]
enum PathSeg {
  Idx(usize),
  Key(String),
}
#[derive(Clone, Debug)]
enum Kind {
  Array(usize),
  Object,
  Num(u64),
  True,
}

fn get_mut<'a>(v: &'a mut Value, path: &[PathSeg]) -> Option<&'a mut Value> {
  let mut cur = v;
  for p in path {
    cur = match p {
      PathSeg::Idx(i) => cur.get_mut(*i)?,
      PathSeg::Key(k) => cur.get_mut(k.as_str())?,
    };
  }
  Some(cur)
}

fn get<'a>(v: &'a Value, path: &[PathSeg]) -> Option<&'a Value> {
  let mut cur = v;
  for p in path {
    cur = match p {
      PathSeg::Idx(i) => cur.get(*i)?,
      PathSeg::Key(k) => cur.get(k.as_str())?,
    };
  }
  Some(cur)
}

/// descendants (depth ≤ 3) of `v` that are objects or strings (enum values)
fn descendants(v: &Value, depth: usize, out: &mut Vec<Value>) {
  if depth == 0 {
    return;
  }
  let kids: Vec<&Value> = match v {
    Value::Object(o) => o.values().collect(),
    Value::Array(a) => a.iter().collect(),
    _ => vec![],
  };
  for k in kids {
    if k.is_object() || k.is_string() {
      out.push(k.clone());
    }
    descendants(k, depth - 1, out);
  }
}

/// Greedy delta-debugging over the JSON form of a case: drop array elements,
/// shrink numbers, clear flags, hoist sub-objects. A candidate is kept only if
/// the scenario still reports a violation of the same rule.
pub fn shrink(s: &dyn Scenario, case: &Value, rule: &str, budget: usize, keep: &dyn Fn(&Violation) -> bool) -> (Value, Violation, usize) {
  let mut best = case.clone();
  let mut best_v = match run_guarded(s, &best) {
    Ok(Outcome { violation: Some(v), .. }) => v,
    _ => Violation { rule: rule.into(), site: "?".into(), detail: "did not reproduce before shrinking".into() },
  };
  let mut used = 1usize;
  let mut try_cand = |cand: Value, best: &mut Value, best_v: &mut Violation, used: &mut usize| -> bool {
    if *used >= budget || cand == *best {
      return false;
    }
    *used += 1;
    if std::env::var("VERIF_DEBUG").is_ok() {
      eprintln!("shrink candidate: {}", cand);
    }
    let size = |v: &Value| v.to_string().len();
    if let Ok(o) = run_guarded(s, &cand) {
      if let Some(v) = o.violation {
        if v.rule == rule && keep(&v) {
          // the resolved form spells out every decision taken and may be longer than
          // the candidate that reproduced: only ever move to something smaller
          let next = match o.resolved {
            Some(r) if size(&r) < size(best) && size(&r) <= size(&cand) => r,
            _ => cand.clone(),
          };
          if size(&next) < size(best) {
            *best = next;
            *best_v = v;
            return true;
          }
          return false;
        }
      }
    }
    // thread-mode cases carry an explicit decision list; once an operation has
    // been removed the list no longer lines up with the run, so the smaller
    // case is also tried under a few fresh seeded schedules (the schedule that
    // fails is stored as its new explicit list)
    if cand.get("sched").and_then(|x| x.get("Explicit")).is_some() {
      for k in 0..6u64 {
        if *used >= budget {
          break;
        }
        *used += 1;
        let mut c2 = cand.clone();
        c2["sched"] = json!({"Seeded": {"seed": 0x9e3779b97f4a7c15u64.wrapping_mul(*used as u64 + k + 1), "strategy": if k % 2 == 0 { json!("Random") } else { json!({"Pct": {"d": 2, "k": 30}}) }}});
        if let Ok(o) = run_guarded(s, &c2) {
          if let Some(v) = o.violation {
            if v.rule == rule && keep(&v) {
              let next = o.resolved.unwrap_or(c2);
              if size(&next) < size(best) {
                *best = next;
                *best_v = v;
                return true;
              }
            }
          }
        }
      }
    }
    false
  };
  let mut progress = true;
  while progress && used < budget {
    progress = false;
    let mut paths = Vec::new();
    collect_paths(&best, &mut Vec::new(), &mut paths);
    // 1. arrays: remove chunks, large first
    for (p, k) in paths.iter() {
      if let Kind::Array(len) = k {
        let mut chunk = (*len).max(1);
        while chunk >= 1 {
          let mut i = 0;
          loop {
            let cur_len = get(&best, p).and_then(|a| a.as_array()).map_or(0, |a| a.len());
            if i >= cur_len || used >= budget {
              break;
            }
            let mut cand = best.clone();
            if let Some(Value::Array(a)) = get_mut(&mut cand, p) {
              let end = (i + chunk).min(a.len());
              a.drain(i..end);
            }
            if try_cand(cand, &mut best, &mut best_v, &mut used) {
              progress = true;
            } else {
              i += chunk;
            }
          }
          if chunk == 1 {
            break;
          }
          chunk /= 2;
        }
      }
    }
    // 2. hoist: replace an object by one of its descendants
    let mut paths = Vec::new();
    collect_paths(&best, &mut Vec::new(), &mut paths);
    for (p, k) in paths.iter() {
      if let Kind::Object = k {
        if p.is_empty() {
          continue;
        }
        let Some(cur) = get(&best, p).cloned() else { continue };
        let mut ds = Vec::new();
        descendants(&cur, 3, &mut ds);
        for d in ds {
          let mut cand = best.clone();
          if let Some(slot) = get_mut(&mut cand, p) {
            *slot = d;
          }
          if try_cand(cand, &mut best, &mut best_v, &mut used) {
            progress = true;
            break;
          }
        }
      }
    }
    // 3. numbers and flags
    let mut paths = Vec::new();
    collect_paths(&best, &mut Vec::new(), &mut paths);
    for (p, k) in paths.iter() {
      match k {
        Kind::Num(n) => {
          for c in [0, n / 2, n - 1] {
            if c >= *n {
              continue;
            }
            let mut cand = best.clone();
            if let Some(slot) = get_mut(&mut cand, p) {
              if slot.as_u64() != Some(*n) {
                break;
              }
              *slot = json!(c);
            }
            if try_cand(cand, &mut best, &mut best_v, &mut used) {
              progress = true;
              break;
            }
          }
        }
        Kind::True => {
          let mut cand = best.clone();
          if let Some(slot) = get_mut(&mut cand, p) {
            *slot = json!(false);
          }
          if try_cand(cand, &mut best, &mut best_v, &mut used) {
            progress = true;
          }
        }
        _ => {}
      }
    }
  }
  (best, best_v, used)
}

// -------------------------------------------------------------------- replay

#[derive(Serialize, Deserialize)]
pub struct ReplayFile {
  pub property: String,
  pub scenario: String,
  pub master_seed: u64,
  pub run_index: u64,
  pub run_seed: u64,
  pub rule: String,
  pub site: String,
  pub detail: String,
  pub trace_hash: u64,
  pub shrink_runs: usize,
  pub original_case: Value,
  pub case: Value,
}

pub fn replay(checks: &[PropertyCheck], path: &str) -> i32 {
  let s = match std::fs::read_to_string(path) {
    Ok(s) => s,
    Err(e) => {
      eprintln!("cannot read {}: {}", path, e);
      return 2;
    }
  };
  let rf: ReplayFile = match serde_json::from_str(&s) {
    Ok(r) => r,
    Err(e) => {
      eprintln!("bad replay file: {}", e);
      return 2;
    }
  };
  let Some(pc) = checks.iter().find(|c| c.id == rf.property) else {
    eprintln!("unknown property {}", rf.property);
    return 2;
  };
  let Some(sc) = pc.scenarios.iter().find(|s| s.name() == rf.scenario) else {
    eprintln!("unknown scenario {}", rf.scenario);
    return 2;
  };
  crate::world::install_hooks();
  match run_guarded(sc.as_ref(), &rf.case) {
    Ok(o) => match o.violation {
      Some(v) if v.rule == rf.rule && o.trace_hash == rf.trace_hash => {
        println!("replay reproduces: rule={} site={}", v.rule, v.site);
        println!("  {}", v.detail);
        println!("  {}", o.sample);
        println!("VIOLATION property={} replay={}", rf.property, path);
        1
      }
      Some(v) => {
        println!(
          "replay diverged: rule={} (expected {}) trace_hash={} (expected {})",
          v.rule, rf.rule, o.trace_hash, rf.trace_hash
        );
        2
      }
      None => {
        println!("replay does not reproduce a violation (the code may have changed)");
        println!("  {}", o.sample);
        0
      }
    },
    Err(e) => {
      eprintln!("replay error: {}", e);
      2
    }
  }
}

// --------------------------------------------------------------------- check

pub fn run_check(pc: &PropertyCheck, tier: Tier, verif_dir: &str) -> i32 {
  let t0 = Instant::now();
  let master = master_seed();
  let known = load_known(verif_dir);
  let total = match tier {
    Tier::Quick => pc.runs.0,
    Tier::Thorough => pc.runs.1,
  };
  let scale: f64 = std::env::var("VERIF_SCALE").ok().and_then(|s| s.parse().ok()).unwrap_or(1.0);
  let total = ((total as f64) * scale).max(1.0) as u64;
  let wsum: usize = pc.scenarios.iter().map(|s| s.weight()).sum();
  println!("check {} tier={} VERIF_SEED={} runs={} workers={}", pc.id, tier.name(), master, total, workers());

  let mut exit = 0;
  let mut scen_json = Vec::new();
  let mut evaluations = 0u64;
  let mut distinct_nontrivial = 0u64;
  let mut distinct_behaviours = 0u64;
  let mut sim_ns = 0u64;
  let mut faults: BTreeMap<String, u64> = BTreeMap::new();
  let mut reach: BTreeMap<String, u64> = BTreeMap::new();
  let mut samples: Vec<String> = Vec::new();
  let mut violations_total = 0u64;
  let mut unknown_violations = 0u64;
  let mut known_lines: Vec<String> = Vec::new();
  let mut real: Vec<&str> = Vec::new();
  let mut stub: Vec<&str> = Vec::new();

  let only = std::env::var("VERIF_ONLY").ok();
  for s in &pc.scenarios {
    if let Some(o) = &only {
      if s.name() != o {
        continue;
      }
    }
    let n = (total * s.weight() as u64 / wsum.max(1) as u64).max(1);
    let ts = Instant::now();
    let st = run_scenario(pc.id, s.as_ref(), n, tier, master, None);
    if !st.harness_errors.is_empty() {
      for e in &st.harness_errors {
        eprintln!("HARNESS ERROR: {}", e);
      }
      return 2;
    }
    evaluations += st.runs;
    distinct_nontrivial += st.distinct_nontrivial.len() as u64;
    distinct_behaviours += st.distinct_behaviours.len() as u64;
    sim_ns += st.sim_ns;
    for (k, c) in &st.faults {
      *faults.entry(k.to_string()).or_default() += c;
    }
    for (k, c) in &st.reach {
      *reach.entry(k.to_string()).or_default() += c;
    }
    samples.extend(st.samples.iter().cloned());
    violations_total += st.violation_count;
    let (r, sb) = s.components();
    for x in r {
      if !real.contains(x) {
        real.push(x);
      }
    }
    for x in sb {
      if !stub.contains(x) {
        stub.push(x);
      }
    }

    // triage: one shrink per distinct unshrunk (rule, site), lowest index first
    let mut seen: HashSet<(String, String)> = HashSet::new();
    let mut shrunk = 0;
    let mut by_sig: BTreeMap<String, u64> = BTreeMap::new();
    for r in &st.violations {
      *by_sig.entry(format!("{} @ {}", r.violation.rule, r.violation.site)).or_default() += 1;
    }
    for r in &st.violations {
      let key = (r.violation.rule.clone(), r.violation.site.clone());
      if !seen.insert(key) {
        continue;
      }
      // every distinct signature is classified; a listed one needs no
      // minimisation, and only the first twelve new ones are minimised (the
      // others are reported as they were found)
      if let Some(k) = match_known(&known, pc.id, s.name(), &r.violation) {
        // one line per listed finding (scenario, rule, listed site fragments),
        // however many concrete sites matched it
        let line = format!("KNOWN-FINDING: property={} {} [scenario={} rule={} site~{:?}]", pc.id, k.what, s.name(), r.violation.rule, k.site_contains);
        if !known_lines.contains(&line) {
          known_lines.push(line);
        }
        continue;
      }
      shrunk += 1;
      let budget = if shrunk > 12 { 0 } else if tier == Tier::Quick { 800 } else { 1500 };
      // a candidate must stay on the same side of the known/unknown line, so that
      // minimisation can never turn a new violation into a listed one
      let orig_known = false;
      let keep = |v: &Violation| match_known(&known, pc.id, s.name(), v).is_some() == orig_known;
      let (min_case, v, used) = shrink(s.as_ref(), &r.case, &r.violation.rule, budget, &keep);
      let o = run_guarded(s.as_ref(), &min_case).ok();
      let th = o.as_ref().map_or(0, |o| o.trace_hash);
      if let Some(k) = match_known(&known, pc.id, s.name(), &v) {
        let line = format!("KNOWN-FINDING: property={} {} [scenario={} rule={} site={}]", pc.id, k.what, s.name(), v.rule, v.site);
        if !known_lines.contains(&line) {
          known_lines.push(line);
        }
        continue;
      }
      unknown_violations += 1;
      let dir = format!("{}/replays", verif_dir);
      let _ = std::fs::create_dir_all(&dir);
      let path = format!("{}/{}-{}-{}.json", dir, pc.id, s.name().replace(['.', '/'], "_"), r.seed);
      let rf = ReplayFile {
        property: pc.id.into(),
        scenario: s.name().into(),
        master_seed: master,
        run_index: r.index,
        run_seed: r.seed,
        rule: v.rule.clone(),
        site: v.site.clone(),
        detail: v.detail.clone(),
        trace_hash: th,
        shrink_runs: used,
        original_case: r.case.clone(),
        case: min_case,
      };
      std::fs::write(&path, serde_json::to_string_pretty(&rf).unwrap()).expect("write replay");
      println!("violation: scenario={} rule={} site={}", s.name(), v.rule, v.site);
      println!("  {}", v.detail);
      if let Some(o) = &o {
        println!("  {}", o.sample);
      }
      println!("VIOLATION property={} replay={}", pc.id, path);
      exit = 1;
    }
    let dt = ts.elapsed().as_secs_f64();
    println!(
      "  {:<28} runs={} nontrivial={} distinct_nontrivial={} behaviours={} violations={} ({:.1}s, {:.0} runs/s)",
      s.name(),
      st.runs,
      st.nontrivial,
      st.distinct_nontrivial.len(),
      st.distinct_behaviours.len(),
      st.violation_count,
      dt,
      st.runs as f64 / dt.max(1e-9)
    );
    scen_json.push(json!({
      "scenario": s.name(),
      "runs": st.runs,
      "nontrivial_runs": st.nontrivial,
      "distinct_cases": st.distinct_cases.len(),
      "distinct_nontrivial": st.distinct_nontrivial.len(),
      "distinct_behaviours": st.distinct_behaviours.len(),
      "simulated_ms": st.sim_ns / 1_000_000,
      "scheduler_steps": st.steps,
      "violating_runs": st.violation_count,
      "violations_by_signature": by_sig,
      "faults_fired": st.faults.iter().map(|(k, v)| (k.to_string(), *v)).collect::<BTreeMap<_, _>>(),
      "reach": st.reach.iter().map(|(k, v)| (k.to_string(), *v)).collect::<BTreeMap<_, _>>(),
      "wall_s": dt,
    }));
  }
  for l in &known_lines {
    println!("{}", l);
  }
  let wall = t0.elapsed().as_secs_f64();
  samples.truncate(12);
  if samples.is_empty() {
    samples.push("(no sample recorded)".into());
  }
  let ev = json!({
    "property_id": pc.id,
    "tier": tier.name(),
    "seed": master,
    "level": "exploration",
    "coverage": {
      "evaluations": evaluations,
      "distinct_nontrivial": distinct_nontrivial,
      "rule": pc.rule,
      "samples": samples,
      "runs_per_hour": (evaluations as f64 / wall.max(1e-9) * 3600.0) as u64,
      "seeds_per_hour": (evaluations as f64 / wall.max(1e-9) * 3600.0) as u64,
      "simulated_ms": sim_ns / 1_000_000,
      "distinct_behaviours": distinct_behaviours,
      "faults_fired": faults,
      "reach_probes": reach,
      "scenarios": scen_json,
      "components_real": real,
      "components_stubbed": stub,
      "violating_runs": violations_total,
      "known_findings_reported": known_lines,
      "exhaustive": false,
    },
    "assumptions": pc.assumptions,
    "wall_s": wall,
    "violations": unknown_violations,
  });
  let dir = format!("{}/evidence", verif_dir);
  let _ = std::fs::create_dir_all(&dir);
  std::fs::write(format!("{}/{}.json", dir, pc.id), serde_json::to_string_pretty(&ev).unwrap()).expect("write evidence");
  println!(
    "{} {}: {} runs, {} distinct non-trivial, {} violating runs ({} unknown signatures), {:.1}s",
    pc.id,
    if exit == 0 { "held" } else { "VIOLATED" },
    evaluations,
    distinct_nontrivial,
    violations_total,
    unknown_violations,
    wall
  );
  exit
}

/// Print (index, hash) of every run of the quick tier, for determinism diffs.
pub fn dump_hashes(pc: &PropertyCheck, n: u64) {
  let master = master_seed();
  for s in &pc.scenarios {
    let out = Mutex::new(Vec::new());
    let st = run_scenario(pc.id, s.as_ref(), n, Tier::Quick, master, Some(&out));
    for e in &st.harness_errors {
      println!("HARNESS ERROR {}", e);
    }
    let mut v = out.into_inner().unwrap();
    v.sort();
    let mut h = 0u64;
    for (i, x) in &v {
      h = hash_mix(hash_mix(h, *i), *x);
    }
    println!("{} {} runs={} violations={} digest={:016x}", pc.id, s.name(), v.len(), st.violation_count, h);
  }
}
