//! Engine for generated pipelines: builds the AST in one flavour, subscribes a
//! probe, executes an explicit action list against the simulated world and
//! returns everything the per-property oracles need.

use crate::ast::*;
use crate::probe::*;
use crate::rng::Rng;
use crate::world::*;
use rxrust::prelude::*;
use serde::{Deserialize, Serialize};
use std::panic::{catch_unwind, AssertUnwindSafe};
use std::sync::atomic::Ordering::SeqCst;
use std::sync::Arc;

#[derive(Clone, Copy, Debug, Serialize, Deserialize, PartialEq)]
pub enum In {
  Next,
  Err,
  Complete,
}

#[derive(Clone, Debug, Serialize, Deserialize, PartialEq)]
pub enum PAct {
  Emit { inp: usize, ev: In },
  Run(u16),
  Advance(u16),
  AdvanceNext,
  Unsub,
  DropGuard,
}

#[derive(Clone, Debug, Serialize, Deserialize)]
pub struct PCase {
  pub threads_flavour: bool,
  pub fifo: bool,
  pub n_hot: usize,
  pub root: Node,
  pub acts: Vec<PAct>,
  /// the pipeline is built at once but subscribed only before action `sub_at`
  /// (0 = immediately): inputs may have emitted or terminated by then
  #[serde(default)]
  pub sub_at: usize,
  /// subscribe with the library's closure idiom
  /// `.on_error(e).on_complete(c).subscribe(n)` (all three closures record into
  /// the one log) instead of a by-value probe observer
  #[serde(default)]
  pub closure_subscriber: bool,
  /// 2 = the closure idiom in the other layering,
  /// `.on_complete(c).on_error(e).subscribe(n)` (overrides `closure_subscriber`)
  #[serde(default)]
  pub sub_style: u8,
  /// k > 0: the subscriber has enough after k items without being terminated:
  /// the by-value probe reports `is_finished()`; the closure idioms get a
  /// `.take(k)` below the handlers
  #[serde(default)]
  pub finish_after: usize,
  /// fault: k > 0 makes the subscriber's callback panic once, right after it
  /// has recorded its k-th notification (only scenarios whose oracle has an
  /// answer for that run such cases: C17)
  #[serde(default)]
  pub panic_at: usize,
  /// fault (C02 only): a `DropGuard` action drops the guard because the scope that
  /// owns it unwinds from a panic of its own (not of a subscriber callback)
  #[serde(default)]
  pub guard_unwinds: bool,
}

#[derive(Default, Debug)]
pub struct PRun {
  pub recs: Vec<Rec>,
  /// (stamp before unsubscribe was called, stamp after it returned)
  pub cut: Option<(u64, u64)>,
  pub cut_with_pending_tasks: bool,
  pub cut_via_guard: bool,
  /// (stamp, is_closed) sampled after every action while the handle exists
  pub closed: Vec<(u64, bool)>,
  pub panic: Option<String>,
  /// terminals the group consumers of GroupTap nodes were told: (key, kind)
  pub group_terminals: Vec<(i64, u8)>,
  /// panics of the injected subscriber fault that surfaced in the harness
  pub injected_panics: u64,
  pub post_terminal_inputs: u64,
  pub late_subscribe_after_input_terminal: bool,
  pub inputs_terminated_total: u64,
  pub multi_ready: u64,
  pub clock_jumps: u64,
  pub timers_created: u64,
  pub tasks_spawned: u64,
  /// global event sequence value at each task spawn / at each Emit action
  pub spawn_stamps: Vec<u64>,
  pub emit_stamps: Vec<u64>,
  /// global event sequence value at each subscription of an inner observable of a flattening operator
  pub inner_sub_stamps: Vec<u64>,
  pub inner_build_stamps: Vec<u64>,
  pub locks: u64,
  pub finalizers: u64,
  pub sim_ns: u64,
  pub trace: String,
  pub idle: bool,
  /// virtual time at which the executor became idle in the quiescence phase
  pub idle_at: Option<u64>,
  pub live_tasks_end: usize,
  pub live_timers_end: usize,
  pub pulls: Vec<u64>,
  pub polls: Vec<u64>,
  pub ticks: Vec<u64>,
  pub ticker_instances: usize,
  /// virtual time at the end of the script (before quiescence)
  pub script_end_ns: u64,
}

enum Handle {
  L(BoxSubscription<'static>),
  S(BoxSubscriptionThreads),
}

impl Handle {
  fn is_closed(&self) -> bool {
    match self {
      Handle::L(h) => h.is_closed(),
      Handle::S(h) => h.is_closed(),
    }
  }
  fn unsubscribe(self) {
    match self {
      Handle::L(h) => h.unsubscribe(),
      Handle::S(h) => h.unsubscribe(),
    }
  }
  fn drop_guard(self) {
    match self {
      Handle::L(h) => drop(h.unsubscribe_when_dropped()),
      Handle::S(h) => drop(h.unsubscribe_when_dropped()),
    }
  }
  /// the guard goes out of scope because its owner panics: the drop runs during
  /// unwinding (the panic is the owner's own and is caught right here)
  fn drop_guard_unwinding(self) {
    struct OwnerUnwinds;
    let r = std::panic::catch_unwind(std::panic::AssertUnwindSafe(move || match self {
      Handle::L(h) => {
        let _guard = h.unsubscribe_when_dropped();
        std::panic::panic_any(OwnerUnwinds)
      }
      Handle::S(h) => {
        let _guard = h.unsubscribe_when_dropped();
        std::panic::panic_any(OwnerUnwinds)
      }
    }));
    if let Err(p) = r {
      if !p.is::<OwnerUnwinds>() {
        std::panic::resume_unwind(p)
      }
    }
  }
}

thread_local! {
  /// fidelity self-test: `Run` = run until stalled (both backends)
  pub static FIDELITY: std::cell::Cell<bool> = const { std::cell::Cell::new(false) };
}

pub fn valid(case: &PCase) -> bool {
  case.n_hot >= 1 && case.n_hot <= 4 && case.sub_style <= 2 && case.finish_after <= 16 && case.root.valid(0) && case.root.size() <= 40 && case.acts.len() <= 120
}

pub fn run_pipeline(case: &PCase) -> Result<PRun, String> {
  if case.panic_at > 0 {
    return Err("this scenario has no oracle for a panicking subscriber".into());
  }
  run_pipeline_on(case, false)
}

/// like `run_pipeline`, but the case may make the subscriber's callback panic:
/// the panic is swallowed wherever it surfaces (inside a scheduled task by the
/// library itself, inside a scripted action by the harness), the script goes
/// on, and `PRun::injected_panics` counts the panics the harness saw
pub fn run_pipeline_with_panics(case: &PCase) -> Result<PRun, String> {
  if case.panic_at > 16 {
    return Err("invalid pipeline case".into());
  }
  run_pipeline_on(case, false)
}

/// `real_pool`: fidelity self-test - the tasks run on a real
/// `futures::executor::LocalPool` (FIFO cases of the local flavour only); `Run`
/// then means "run until stalled" on either backend.
pub fn run_pipeline_on(case: &PCase, real_pool: bool) -> Result<PRun, String> {
  if real_pool && (case.threads_flavour || !case.fifo) {
    return Err("fidelity runs are local + fifo".into());
  }
  let mut pool = futures::executor::LocalPool::new();
  if real_pool {
    set_real_pool(Some(pool.spawner()));
  }
  let r = run_pipeline_inner(case, if real_pool { Some(&mut pool) } else { None });
  set_real_pool(None);
  r
}

fn run_pipeline_inner(case: &PCase, mut pool: Option<&mut futures::executor::LocalPool>) -> Result<PRun, String> {
  if !valid(case) {
    return Err("invalid pipeline case".into());
  }
  let w = World::new();
  let fidelity = FIDELITY.with(|f| f.get());
  let log = ProbeLog::new(false);
  let counters = Arc::new(Counters::default());
  let mut run = PRun::default();
  let hots_l: Vec<Subject<'static, Val, E>> = (0..case.n_hot).map(|_| Subject::default()).collect();
  let hots_s: Vec<SubjectThreads<Val, E>> = (0..case.n_hot).map(|_| SubjectThreads::default()).collect();
  enum Pending {
    L(rxrust::ops::box_it::BoxOp<'static, Val, E>),
    S(rxrust::ops::box_it::BoxOpThreads<Val, E>),
  }
  let env_s = EnvS::new(hots_s.clone(), counters.clone());
  let env_l = EnvL::new(hots_l.clone(), counters.clone());
  let built = catch_unwind(AssertUnwindSafe(|| {
    if case.threads_flavour {
      Pending::S(build_shared(&case.root, &env_s))
    } else {
      Pending::L(build_local(&case.root, &env_l))
    }
  }));
  let mut pending = match built {
    Ok(p) => Some(p),
    Err(p) => {
      run.panic = Some(format!("while building: {}", panic_message(&*p)));
      None
    }
  };
  let style = if case.sub_style == 2 { 2 } else { case.closure_subscriber as u8 };
  let fin = case.finish_after;
  log.panic_at.store(case.panic_at, SeqCst);
  let tolerant = case.panic_at > 0;
  if style == 0 {
    log.finish_after.store(fin, SeqCst);
  }
  let subscribe = |p: Pending, log: &Arc<ProbeLog>| -> Result<Handle, String> {
    catch_unwind(AssertUnwindSafe(|| {
      let (l1, l2, l3) = (log.clone(), log.clone(), log.clone());
      let on_e = move |e: E| Observer::<Val, E>::error(Probe(l1), e);
      let on_c = move || Observer::<Val, E>::complete(Probe(l2));
      let on_n = move |v: Val| Observer::<Val, E>::next(&mut Probe(l3.clone()), v);
      match (p, style, fin) {
        (Pending::L(o), 0, _) => Handle::L(o.actual_subscribe(Probe(log.clone()))),
        (Pending::S(o), 0, _) => Handle::S(o.actual_subscribe(Probe(log.clone()))),
        (Pending::L(o), 1, 0) => Handle::L(BoxSubscription::new(o.on_error(on_e).on_complete(on_c).subscribe(on_n))),
        (Pending::S(o), 1, 0) => Handle::S(BoxSubscriptionThreads::new(o.on_error(on_e).on_complete(on_c).subscribe(on_n))),
        (Pending::L(o), 1, k) => Handle::L(BoxSubscription::new(o.on_error(on_e).on_complete(on_c).take(k).subscribe(on_n))),
        (Pending::S(o), 1, k) => Handle::S(BoxSubscriptionThreads::new(o.on_error(on_e).on_complete(on_c).take(k).subscribe(on_n))),
        (Pending::L(o), _, 0) => Handle::L(BoxSubscription::new(o.on_complete(on_c).on_error(on_e).subscribe(on_n))),
        (Pending::S(o), _, 0) => Handle::S(BoxSubscriptionThreads::new(o.on_complete(on_c).on_error(on_e).subscribe(on_n))),
        (Pending::L(o), _, k) => Handle::L(BoxSubscription::new(o.on_complete(on_c).on_error(on_e).take(k).subscribe(on_n))),
        (Pending::S(o), _, k) => Handle::S(BoxSubscriptionThreads::new(o.on_complete(on_c).on_error(on_e).take(k).subscribe(on_n))),
      }
    }))
    .map_err(|p| format!("while subscribing: {}", panic_message(&*p)))
  };
  let mut handle: Option<Handle> = None;
  if case.sub_at == 0 {
    if let Some(p) = pending.take() {
      match subscribe(p, &log) {
        Ok(h) => handle = Some(h),
        Err(e) => run.panic = Some(e),
      }
    }
  }
  let mut done = vec![false; case.n_hot];
  let mut counts = vec![0i64; case.n_hot];
  let sample = |handle: &Option<Handle>, run: &mut PRun, w: &World| {
    if let Some(h) = handle {
      // after an injected panic a poisoned cell may make is_closed() itself
      // panic: no answer, no sample
      if let Ok(c) = catch_unwind(AssertUnwindSafe(|| h.is_closed())) {
        run.closed.push((w.shared.stamp(), c));
      }
    }
  };
  sample(&handle, &mut run, &w);
  if run.panic.is_none() {
    for (ai, a) in case.acts.iter().enumerate() {
      if ai == case.sub_at {
        if let Some(p) = pending.take() {
          match subscribe(p, &log) {
            Ok(h) => {
              handle = Some(h);
              run.trace.push_str("SUBSCRIBE ");
              run.late_subscribe_after_input_terminal = done.iter().any(|d| *d);
            }
            Err(e) => {
              run.panic = Some(e);
              break;
            }
          }
        }
      }
      let r = catch_unwind(AssertUnwindSafe(|| match a {
        PAct::Emit { inp, ev } => {
          let i = *inp % case.n_hot;
          run.emit_stamps.push(w.shared.seq.load(SeqCst));
          if done[i] {
            run.post_terminal_inputs += 1;
          }
          let v = Val::I((i as i64 + 1) * 1000 + counts[i]);
          if case.threads_flavour {
            env_s.emit(i, ev, v, i as E + 1)
          } else {
            env_l.emit(i, ev, v, i as E + 1)
          }
          run.trace.push_str(&format!("h{}:{} ", i, match ev {
            In::Next => format!("N{}", (i as i64 + 1) * 1000 + counts[i]),
            In::Err => "E".into(),
            In::Complete => "C".into(),
          }));
          if *ev == In::Next {
            counts[i] += 1;
          } else if !done[i] {
            done[i] = true;
            run.inputs_terminated_total += 1;
          }
        }
        PAct::Run(c) => {
          if fidelity {
            match pool.as_mut() {
              Some(p) => p.run_until_stalled(),
              None => {
                w.run_ready_fifo(100_000);
              }
            }
            run.trace.push('R');
          } else if w.run_task(if case.fifo { 0 } else { *c as usize }) {
            run.trace.push('r');
          }
        }
        PAct::Advance(ms) => {
          w.advance_by(*ms as u64 * MS);
          run.trace.push_str(&format!(" +{} ", ms));
        }
        PAct::AdvanceNext => {
          if w.advance_next() {
            run.trace.push_str(" → ");
          }
        }
        PAct::Unsub | PAct::DropGuard => {
          if let Some(h) = handle.take() {
            run.cut_with_pending_tasks = w.ready_count() > 0 || w.live_timers() > 0;
            run.cut_via_guard = *a == PAct::DropGuard;
            let before = w.shared.stamp();
            if *a == PAct::Unsub {
              h.unsubscribe()
            } else if case.guard_unwinds {
              h.drop_guard_unwinding()
            } else {
              h.drop_guard()
            }
            let after = w.shared.stamp();
            run.cut = Some((before, after));
            run.trace.push_str(if *a == PAct::Unsub { "UNSUB " } else if case.guard_unwinds { "GUARD-DROP(owner unwinding) " } else { "GUARD-DROP " });
          }
        }
      }));
      if let Err(p) = r {
        if tolerant {
          run.injected_panics += 1;
          run.trace.push_str("(panicked) ");
        } else {
          run.panic = Some(format!("`{}` then {:?}: {}", run.trace.trim(), a, panic_message(&*p)));
          break;
        }
      }
      sample(&handle, &mut run, &w);
    }
  }
  run.script_end_ns = w.now();
  // quiescence: no more inputs or cuts; the executor runs (same policy) and the
  // clock moves promptly until idle
  if run.panic.is_none() {
    let r = catch_unwind(AssertUnwindSafe(|| {
      let mut polls = 0usize;
      // long enough for every one-shot delay to run out, short enough that a
      // periodic task that never retires costs a few thousand polls only
      let horizon = w.now() + 2_000 * MS;
      loop {
        if let Some(p) = pool.as_mut() {
          // real LocalPool: run until stalled, then jump to the next deadline
          p.run_until_stalled();
          polls += 1;
          if polls > 5_000 {
            return false;
          }
          match w.shared.next_deadline() {
            Some(d) if d <= horizon => {
              w.shared.advance_to(d.max(w.now()));
              continue;
            }
            Some(_) => return false,
            None => return true,
          }
        }
        if w.ready_count() > 0 {
          polls += 1;
          let c = if case.fifo { 0 } else { polls * 5 + 1 };
          w.run_task(c);
          // a run whose subscriber has not terminated has nothing to retire:
          // no need to watch an unbounded producer for two virtual seconds
          if polls > 300_000 || (polls > 3_000 && polls % 512 == 0 && !log.terminated()) {
            return false;
          }
        } else {
          match w.shared.next_deadline() {
            Some(d) if d <= horizon => {
              w.shared.advance_to(d.max(w.now()));
            }
            Some(_) => return false,
            None => return true,
          }
        }
      }
    }));
    match r {
      Ok(idle) => {
        run.idle = idle;
        if idle {
          run.idle_at = Some(w.now());
        }
      }
      Err(_) if tolerant => run.injected_panics += 1,
      Err(p) => run.panic = Some(format!("`{}` then quiescence: {}", run.trace.trim(), panic_message(&*p))),
    }
    if run.panic.is_none() {
      sample(&handle, &mut run, &w);
    }
  }
  run.recs = log.records();
  let st = &w.shared.stats;
  run.multi_ready = st.multi_ready_decisions.load(SeqCst);
  run.clock_jumps = st.clock_jumps_over_2.load(SeqCst);
  run.timers_created = st.timers_created.load(SeqCst);
  run.tasks_spawned = st.tasks_spawned.load(SeqCst);
  run.spawn_stamps = st.spawn_stamps.lock().unwrap().clone();
  run.inner_sub_stamps = counters.inner_subs.lock().unwrap().clone();
  run.inner_build_stamps = counters.inner_builds.lock().unwrap().clone();
  run.locks = st.locks.load(SeqCst);
  run.finalizers = counters.finalizers.load(SeqCst);
  run.group_terminals = counters.group_terminals.lock().unwrap().clone();
  run.sim_ns = w.now();
  run.live_tasks_end = w.live_tasks();
  run.live_timers_end = w.live_timers();
  run.pulls = counters.pulls.lock().unwrap().clone();
  run.polls = counters.polls.lock().unwrap().clone();
  run.ticks = counters.ticks.lock().unwrap().clone();
  run.ticker_instances = counters.ticker_instances.load(SeqCst) as usize;
  // tear down inside the context; a panic here must not escape
  let _ = catch_unwind(AssertUnwindSafe(|| {
    drop(pending);
    drop(handle);
    drop(hots_l);
    drop(hots_s);
    drop(env_l);
    drop(env_s);
    drop(w);
  }));
  Ok(run)
}

pub struct ScriptCfg {
  pub len: (usize, usize),
  /// probability (num/den) that a cut is part of the script
  pub cut: (usize, usize),
  pub post_terminal: bool,
}

/// Random action list for `n_hot` inputs.
pub fn gen_script(rng: &mut Rng, n_hot: usize, uses_sched: bool, cfg: &ScriptCfg) -> Vec<PAct> {
  let len = rng.range(cfg.len.0, cfg.len.1);
  let mut acts = Vec::new();
  let mut term = vec![false; n_hot];
  let cut_at = if rng.chance(cfg.cut.0, cfg.cut.1) { Some(rng.below(len + 1)) } else { None };
  for i in 0..len {
    if cut_at == Some(i) {
      acts.push(if rng.chance(1, 4) { PAct::DropGuard } else { PAct::Unsub });
    }
    let late = i * 3 >= len * 2;
    let sw = if uses_sched { 6 } else { 1 };
    let a = match rng.weighted(&[12, sw, if uses_sched { 2 } else { 0 }, if uses_sched { 3 } else { 0 }]) {
      0 => {
        let inp = rng.below(n_hot);
        let tw = if late { 3 } else { 1 };
        let ev = if term[inp] && !cfg.post_terminal {
          In::Next
        } else {
          match rng.weighted(&[10, tw, tw + 1]) {
            0 => In::Next,
            1 => In::Err,
            _ => In::Complete,
          }
        };
        if ev != In::Next {
          term[inp] = true;
        }
        PAct::Emit { inp, ev }
      }
      1 => PAct::Run(rng.below(6) as u16),
      2 => PAct::Advance(*rng.pick(&[1u16, 2, 5, 11])),
      _ => PAct::AdvanceNext,
    };
    acts.push(a);
  }
  if cut_at == Some(len) {
    acts.push(PAct::Unsub);
  }
  acts
}
