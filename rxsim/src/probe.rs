//! Recording observers and the small value universe of generated pipelines.

use crate::threadsim::{current_tid, harness_yield};
use crate::world::shared;
use rxrust::observer::Observer;
use serde::{Deserialize, Serialize};
use std::convert::Infallible;
use std::sync::{
  atomic::{AtomicBool, AtomicUsize, Ordering::SeqCst},
  Arc, Mutex,
};

pub type E = i32;

#[derive(Clone, Debug, PartialEq, Eq, Hash, PartialOrd, Ord, Serialize, Deserialize)]
pub enum Val {
  I(i64),
  P(Box<Val>, Box<Val>),
  L(Vec<Val>),
}

impl Default for Val {
  fn default() -> Self {
    Val::I(0)
  }
}

impl Val {
  pub fn pair(a: Val, b: Val) -> Val {
    Val::P(Box::new(a), Box::new(b))
  }
  /// all integers contained, left to right
  pub fn leaves(&self, out: &mut Vec<i64>) {
    match self {
      Val::I(i) => out.push(*i),
      Val::P(a, b) => {
        a.leaves(out);
        b.leaves(out);
      }
      Val::L(v) => v.iter().for_each(|x| x.leaves(out)),
    }
  }
  pub fn as_int(&self) -> Option<i64> {
    match self {
      Val::I(i) => Some(*i),
      _ => None,
    }
  }
  /// a number derived from the whole value (for key functions / predicates)
  pub fn weight(&self) -> i64 {
    let mut v = Vec::new();
    self.leaves(&mut v);
    v.iter().fold(0i64, |a, b| a.wrapping_add(*b))
  }
}

impl std::ops::Add for Val {
  type Output = Val;
  fn add(self, o: Val) -> Val {
    Val::I(self.weight().wrapping_add(o.weight()))
  }
}

impl std::ops::Mul<f64> for Val {
  type Output = Val;
  fn mul(self, o: f64) -> Val {
    Val::I((self.weight() as f64 * o) as i64)
  }
}

pub trait IntoVal {
  fn into_val(self) -> Val;
}
impl IntoVal for Val {
  fn into_val(self) -> Val {
    self
  }
}
impl IntoVal for i64 {
  fn into_val(self) -> Val {
    Val::I(self)
  }
}
impl IntoVal for usize {
  fn into_val(self) -> Val {
    Val::I(self as i64)
  }
}
impl IntoVal for bool {
  fn into_val(self) -> Val {
    Val::I(self as i64)
  }
}
impl IntoVal for () {
  fn into_val(self) -> Val {
    Val::I(-1)
  }
}
impl<A: IntoVal, B: IntoVal> IntoVal for (A, B) {
  fn into_val(self) -> Val {
    Val::pair(self.0.into_val(), self.1.into_val())
  }
}
impl<A: IntoVal> IntoVal for Vec<A> {
  fn into_val(self) -> Val {
    Val::L(self.into_iter().map(|x| x.into_val()).collect())
  }
}
impl<A: IntoVal> IntoVal for Option<A> {
  fn into_val(self) -> Val {
    match self {
      Some(a) => Val::L(vec![a.into_val()]),
      None => Val::L(vec![]),
    }
  }
}

pub trait IntoErr {
  fn into_err(self) -> E;
}
impl IntoErr for E {
  fn into_err(self) -> E {
    self
  }
}
impl IntoErr for Infallible {
  fn into_err(self) -> E {
    match self {}
  }
}
impl IntoErr for () {
  fn into_err(self) -> E {
    -1
  }
}

#[derive(Clone, Debug, PartialEq, Eq, Hash, Serialize, Deserialize)]
pub enum Ev {
  Next(Val),
  Err(E),
  Complete,
}

impl Ev {
  pub fn is_terminal(&self) -> bool {
    !matches!(self, Ev::Next(_))
  }
}

#[derive(Clone, Debug, PartialEq, Eq)]
pub struct Rec {
  /// global event sequence number at callback entry
  pub seq: u64,
  /// global event sequence number at callback exit
  pub seq_out: u64,
  /// virtual time (ns)
  pub t: u64,
  /// simulated thread (0 = the single DES / driver thread)
  pub tid: usize,
  pub ev: Ev,
}

#[derive(Default)]
pub struct ProbeLog {
  pub recs: Mutex<Vec<Rec>>,
  inside: AtomicUsize,
  pub overlap: AtomicBool,
  /// calls while another call of the same probe was on the stack of the same
  /// thread cannot happen (no re-entrancy is generated); on another thread it
  /// is the violation C10 looks for
  pub yield_inside: AtomicBool,
  /// 0 = never; k = the probe reports `is_finished()` once it has seen k
  /// notifications ("I have enough") without having been terminated
  pub finish_after: AtomicUsize,
  /// fault: k > 0 = panic once, right after the k-th notification was recorded
  pub panic_at: AtomicUsize,
  /// fault: the callback takes this much (virtual) time before it returns
  pub busy_ns: std::sync::atomic::AtomicU64,
  /// 0 = every callback is that slow; k = only the k-th one
  pub busy_only_at: AtomicUsize,
}

impl ProbeLog {
  pub fn new(yield_inside: bool) -> Arc<Self> {
    let l = ProbeLog::default();
    l.yield_inside.store(yield_inside, SeqCst);
    Arc::new(l)
  }
  pub fn events(&self) -> Vec<Ev> {
    self.recs.lock().unwrap().iter().map(|r| r.ev.clone()).collect()
  }
  pub fn records(&self) -> Vec<Rec> {
    self.recs.lock().unwrap().clone()
  }
  pub fn len(&self) -> usize {
    self.recs.lock().unwrap().len()
  }
  pub fn terminated(&self) -> bool {
    self.recs.lock().unwrap().iter().any(|r| r.ev.is_terminal())
  }
  fn record(&self, ev: Ev) {
    let sh = shared();
    let seq = sh.stamp();
    if self.inside.fetch_add(1, SeqCst) != 0 {
      self.overlap.store(true, SeqCst);
    }
    let idx = {
      let mut recs = self.recs.lock().unwrap();
      recs.push(Rec { seq, seq_out: u64::MAX, t: sh.now(), tid: current_tid(), ev });
      recs.len() - 1
    };
    if self.yield_inside.load(SeqCst) {
      harness_yield("probe-callback");
    }
    let busy = self.busy_ns.load(SeqCst);
    let only = self.busy_only_at.load(SeqCst);
    if busy > 0 && (only == 0 || only == idx + 1) {
      sh.advance_to(sh.now().saturating_add(busy));
    }
    self.inside.fetch_sub(1, SeqCst);
    let out = sh.stamp();
    self.recs.lock().unwrap()[idx].seq_out = out;
    let k = self.panic_at.load(SeqCst);
    if k != 0 && idx + 1 == k {
      self.panic_at.store(0, SeqCst);
      panic!("injected fault: the subscriber's callback panics");
    }
  }
}

/// The final subscriber of a pipeline under test.
#[derive(Clone)]
pub struct Probe(pub Arc<ProbeLog>);

impl<T: IntoVal, Er: IntoErr> Observer<T, Er> for Probe {
  fn next(&mut self, value: T) {
    self.0.record(Ev::Next(value.into_val()));
  }
  fn error(self, err: Er) {
    self.0.record(Ev::Err(err.into_err()));
  }
  fn complete(self) {
    self.0.record(Ev::Complete);
  }
  fn is_finished(&self) -> bool {
    let k = self.0.finish_after.load(SeqCst);
    k != 0 && self.0.len() >= k
  }
}

/// `Next* (Err|Complete)?` and nothing after the terminal. Returns the index of
/// the first offending record.
pub fn grammar_violation(evs: &[Ev]) -> Option<usize> {
  let mut terminated = false;
  for (i, e) in evs.iter().enumerate() {
    if terminated {
      return Some(i);
    }
    if e.is_terminal() {
      terminated = true;
    }
  }
  None
}

pub fn fmt_ev(e: &Ev) -> String {
  match e {
    Ev::Next(v) => format!("N{}", fmt_val(v)),
    Ev::Err(e) => format!("E{}", e),
    Ev::Complete => "C".into(),
  }
}
pub fn fmt_val(v: &Val) -> String {
  match v {
    Val::I(i) => format!("{}", i),
    Val::P(a, b) => format!("({},{})", fmt_val(a), fmt_val(b)),
    Val::L(l) => format!("[{}]", l.iter().map(fmt_val).collect::<Vec<_>>().join(",")),
  }
}
pub fn fmt_trace(evs: &[Ev]) -> String {
  evs.iter().map(fmt_ev).collect::<Vec<_>>().join(" ")
}
