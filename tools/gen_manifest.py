#!/usr/bin/env python3
"""Regenerate /verif/MANIFEST.json from the table below (kept in one place so the
manifest is always schema-valid)."""
import json, subprocess, os

HERE = os.path.dirname(os.path.dirname(os.path.abspath(__file__)))

HOOK_COMMITS = subprocess.run(
    ["git", "-C", "/repo", "log", "--format=%H %s", "--grep=^verif_hooks:"],
    capture_output=True, text=True).stdout.strip().splitlines()

NOTE_COMMON = ("Trusted base: the simulator (rxsim: virtual clock/timer/executor, baton thread scheduler, oracles); "
               "sequentially consistent execution (no weak-memory effects); only the futures-scheduler code path "
               "(tokio/wasm schedulers share impl_scheduler_method! and are not run); a clean batch is evidence, not proof.")

# id -> (technique, level text, design ref)
CLAIMED = {}

def claim(pid, technique, text, ref):
    CLAIMED[pid] = (technique, text, ref)

NA = {
    "C03": "pure function of one finite input sequence and operator parameters: no schedule, clock, fault or interleaving enters the statement, so deterministic simulation has nothing to decide (DESIGN.md section 7)",
    "C13": "laziness/independence of cold pipelines is a function of the program and its input; repeated or nested subscription is an input, not a schedule or fault (DESIGN.md section 7)",
    "C20": "group_by routing is a pure function of the input sequence and key function; no schedule, time or fault to simulate (DESIGN.md section 7)",
}

exec(open(os.path.join(HERE, "tools", "claims.py")).read())

props = [json.loads(l)["id"] for l in open(os.path.join(HERE, "properties.jsonl"))]
checks = []
na = []
for pid in props:
    if pid in CLAIMED:
        tech, text, ref = CLAIMED[pid]
        checks.append({
            "property_id": pid,
            "quick_cmd": f"./check {pid} quick",
            "thorough_cmd": f"./check {pid} thorough",
            "evidence_file": f"/verif/evidence/{pid}.json",
            "replay_cmd_template": "./check replay {path}",
            "engine": "rxsim",
            "level_claimed": {"category": "exploration", "text": text, "design_ref": ref},
            "level_note": NOTE_COMMON,
            "technique": tech,
        })
    else:
        na.append({"property_id": pid, "reason": NA.get(pid, "check not built yet (work in progress; see DESIGN.md section 4)")})

manifest = {
    "version": 1,
    "setup_cmd": "./check build",
    "hooks": {
        "guard": "cargo feature `verif_hooks` of the rxrust crate (off by default; declared in /repo/Cargo.toml)",
        "enable": "rxsim depends on /repo with default-features=false, features=[\"futures-scheduler\",\"verif_hooks\"]; without the `timer` feature rxRust's existing NEW_TIMER_FN seam supplies the virtual timer",
        "baseline_off_cmd": "cd /repo && cargo test --workspace --no-fail-fast --offline",
        "source_commits": [l.split()[0] for l in HOOK_COMMITS],
        "add_only": True,
    },
    "engines": [{
        "name": "rxsim",
        "path": "/verif/rxsim",
        "serves_properties": sorted(CLAIMED),
        "kind_free_text": "deterministic simulator written for this task: discrete-event virtual clock/timer/executor behind rxRust's scheduler and timer seams, plus a baton scheduler that runs real OS threads one at a time at hooked MutArc lock points; seeded search with fault injection, JSON shrinker, replay files",
    }],
    "checks": checks,
    "not_applicable": na,
    "notes": "Every check: ./check <ID> quick|thorough rebuilds rxsim against /repo's working tree (cargo build --release --offline) and runs the property's scenarios from VERIF_SEED (default 20261003). Exit 0 held / 1 VIOLATION line with replay file / 2 harness error. Known findings: /verif/known_findings.json.",
}
json.dump(manifest, open(os.path.join(HERE, "MANIFEST.json"), "w"), indent=1)
print("claimed:", sorted(CLAIMED), "n/a:", [x["property_id"] for x in na])
