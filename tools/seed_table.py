#!/usr/bin/env python3
"""Rewrite section 17 of DESIGN.md from /verif/seeded/*/meta.json."""
import json, glob, os, re
rows=[]
for d in sorted(glob.glob('/verif/seeded/*/')):
    m=json.load(open(d+'meta.json'))
    res=m['result']
    if m.get('rebased'): res+=' ['+m['rebased']+']'
    if m.get('obsolete'): res+=' [OBSOLETE: '+m['obsolete']+']'
    rows.append("| `%s` | %s | %s | %s |" % (os.path.basename(d[:-1]), m['breaks_property'], m['needs_to_manifest'].replace('|','/'), res.replace('|','/')))
table = "## 17. Seeded changes and the checks that catch them\n\nEach row is a change written by an independent sub-agent that was given only the property text and a scratch worktree; it compiles, passes the 255 lib + 57 doc tests, and comes with a demonstration test that fails with it and passes without it (re-confirmed by `selftest/confirm_seed.sh`). `selftest/try_patch.sh <patch> [IDs]` applies it to /repo, runs the quick tier and reverts.\n\n| seeded change | property | needs to manifest | result |\n|---|---|---|---|\n" + "\n".join(rows) + "\n"
p='/verif/DESIGN.md'
s=open(p).read()
i=s.find("## 17. Seeded changes")
if i>=0: s=s[:i]
s=s.rstrip()+"\n\n"+table
open(p,'w').write(s)
print(len(rows),"rows")
