//! AUDIT A2 / finding 3 -- property C05
//!
//! Violated clause (C05):
//!   "... This holds for any mix of synchronous and asynchronous inner
//!    observables and any interleaving of their events, without panicking or
//!    blocking."
//!
//! Program: concat_all over [hot G, S, S] where S is one `share()`d
//! cold-synchronous observable (`from_iter(0..3).share()`), i.e. the shared
//! sequence is concatenated twice behind a running inner.  G completes.
//! No user callback re-enters anything; the only callbacks are a `push` and a
//! flag store.
//!
//! Mechanism:
//!   * src/ops/merge_all.rs:167-171 -- G's completion starts the first queued
//!     S from inside `complete()`.
//!   * src/ops/ref_count.rs:60-76 -- `ShareOp::actual_subscribe` takes
//!     `self.0.rc_deref_mut()` (line 61) and still holds it while it calls
//!     `connectable.connect()` (line 71).  `connect()` subscribes the cold
//!     source, which emits 0,1,2 and completes *synchronously*, inside that
//!     call.
//!   * the completion reaches merge_all's InnerObserver
//!     (src/ops/merge_all.rs:159-171), which starts the next queued inner --
//!     the second clone of S -- right there: `ShareOp::actual_subscribe`
//!     again, on the very cell that the outer call still holds.
//!   => local form: `RefCell already borrowed` panic (src/rc.rs:88);
//!      `_threads` form (`share_threads` + `concat_all_threads`, the cell is
//!      a std Mutex): the thread locks the mutex it already holds and blocks
//!      for ever.
//!
//! The assertions below deliberately demand nothing about what a second
//! subscription to an already finished `share()` should deliver; they only
//! demand "no panic / no blocking" and the first pass of S.
use rxrust::ops::box_it::{BoxOp, BoxOpThreads};
use rxrust::prelude::*;
use std::{
  cell::RefCell,
  convert::Infallible,
  rc::Rc,
  sync::{mpsc, Arc, Mutex},
  time::Duration,
};

#[test]
fn concat_all_of_a_shared_synchronous_inner_twice_local() {
  let out = Rc::new(RefCell::new(Vec::<i32>::new()));

  let gate = Subject::<i32, Infallible>::default();
  let s = observable::from_iter(0..3).share();
  let inners: Vec<BoxOp<'static, i32, Infallible>> =
    vec![gate.clone().box_it(), s.clone().box_it(), s.clone().box_it()];
  {
    let out = out.clone();
    observable::from_iter(inners)
      .concat_all()
      .subscribe(move |v| out.borrow_mut().push(v));
  }
  // the running inner ends; the operator starts the queued ones.
  // Panics here: "RefCell already borrowed".
  gate.complete();

  assert_eq!(out.borrow()[..3], [0, 1, 2]);
}

#[test]
fn concat_all_of_a_shared_synchronous_inner_twice_threads() {
  let (tx, rx) = mpsc::channel();
  std::thread::spawn(move || {
    let out = Arc::new(Mutex::new(Vec::<i32>::new()));

    let gate = SubjectThreads::<i32, Infallible>::default();
    let s = observable::from_iter(0..3).share_threads();
    let inners: Vec<BoxOpThreads<i32, Infallible>> =
      vec![gate.clone().box_it(), s.clone().box_it(), s.clone().box_it()];
    {
      let out = out.clone();
      observable::from_iter(inners)
        .concat_all_threads()
        .subscribe(move |v| out.lock().unwrap().push(v));
    }
    gate.complete(); // never returns
    let first_pass = out.lock().unwrap()[..3].to_vec();
    tx.send(first_pass).unwrap();
  });

  match rx.recv_timeout(Duration::from_secs(10)) {
    Ok(first_pass) => assert_eq!(first_pass, vec![0, 1, 2]),
    Err(e) => panic!(
      "completing the running inner blocked for 10 s (self-deadlock on \
       ShareOpThreads' mutex) or died: {:?}",
      e
    ),
  }
}
