//! AUDIT A2 / finding 2 -- property C05
//!
//! Violated clause (C05):
//!   "For every higher-order stream, merge_all(n), concat_all, flatten,
//!    flat_map and concat_map deliver every item of every inner observable
//!    exactly once ... and complete exactly when the outer stream and all
//!    inner streams have completed. This holds for any mix of synchronous and
//!    asynchronous inner observables ..., without panicking or blocking."
//!   (why_tests_cant: "the queued-then-started path")
//!
//! Program: concat_all over [one hot inner, then N cold-synchronous `of(i)`];
//! the hot inner completes. N = 10_000, run on a thread with the default
//! 2 MiB stack of a Rust thread.
//!
//! Mechanism: src/ops/merge_all.rs:159-177.  An inner's `complete()` starts
//! the next queued inner by *calling* its subscribe closure (`task()`, line
//! 171) from inside `complete()`.  A queued inner that is synchronous runs to
//! its own `complete()` inside that call, which pops and calls the next
//! closure, and so on: the queued-then-started path is a recursion whose
//! depth is the number of consecutive synchronous inners in the queue
//! (complete -> task -> actual_subscribe -> complete -> task -> ...), instead
//! of a loop that drains the queue after the call returns.  In a debug build
//! every level costs ~600 bytes of stack, so a few thousand queued
//! synchronous inners overflow the stack and the process is aborted
//! ("thread ... has overflowed its stack", SIGABRT) -- not even a panic that
//! could be caught; an optimised (--release) build overflows as well.  The same N inners are handled without any problem when
//! they are not queued (control test below), so the depth is purely an
//! artefact of how queued inners are started.
use rxrust::ops::box_it::BoxOp;
use rxrust::prelude::*;
use std::{
  convert::Infallible,
  sync::{Arc, Mutex},
};

const N: usize = 10_000;
const STACK: usize = 2 * 1024 * 1024; // default stack size of a Rust thread

fn run(queue_behind_hot_inner: bool) -> (usize, bool) {
  std::thread::Builder::new()
    .stack_size(STACK)
    .spawn(move || {
      let count = Arc::new(Mutex::new(0usize));
      let done = Arc::new(Mutex::new(false));
      let gate = Subject::<usize, Infallible>::default();

      let mut inners: Vec<BoxOp<'static, usize, Infallible>> = vec![];
      if queue_behind_hot_inner {
        inners.push(gate.clone().box_it());
      }
      for i in 0..N {
        inners.push(observable::of(i).box_it());
      }
      {
        let count = count.clone();
        let done = done.clone();
        observable::from_iter(inners)
          .concat_all()
          .on_complete(move || *done.lock().unwrap() = true)
          .subscribe(move |_| *count.lock().unwrap() += 1);
      }
      // the running hot inner ends: the queued inners are started
      gate.complete();
      let r = (*count.lock().unwrap(), *done.lock().unwrap());
      r
    })
    .unwrap()
    .join()
    .expect("flattening panicked")
}

/// control: the very same inners, never queued (each one has completed
/// before the outer emits the next)
#[test]
fn a_control_same_inners_not_queued() {
  assert_eq!(run(false), (N, true));
}

/// the same inners, queued behind one hot inner that then completes
#[test]
fn b_queued_synchronous_inners_are_started_recursively() {
  assert_eq!(run(true), (N, true));
}
