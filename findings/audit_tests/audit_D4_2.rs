//! AUDIT D4, finding 2 -- properties C06 (subjects deliver to exactly the
//! current subscribers) and C15 (finalize runs exactly once).
//!
//! Violated clauses:
//!   C06: "A subject (local ...) delivers each item passed to it exactly once,
//!         in emission order, to exactly those subscribers that subscribed
//!         before that emission began AND HAVE NOT UNSUBSCRIBED" -- the
//!         operation "unsubscribe-one" is in the property's history alphabet.
//!   C15: "The callback given to finalize ... runs exactly once for every
//!         subscription that is completed, failed or UNSUBSCRIBED: right after
//!         the first of those events".
//!
//! Program (local form, single thread): a subscriber of a local `Subject` ends
//! its own subscription from inside its `next` callback -- directly
//! (`unsubscribe()` on its handle) or by dropping its
//! `unsubscribe_when_dropped()` guard at that moment.  This is the ordinary
//! Rx idiom "stop listening once I have seen X".
//!
//! Mechanism: the subject's subscription handle and the entry in the subject's
//! list are two clones of one `Subscriber(MutRc<Option<O>>)`
//! (src/subject.rs:232-234).  Delivery goes
//!   Subject::next            src/subject.rs:162-168
//!   -> Subscriber::p_next    src/subscriber.rs:84-86 -> next :47-49
//!   -> MutRc<Option<O>>::next  src/observer.rs:114-118:
//!        `if let Some(o) = &mut *self.rc_deref_mut() { o.next(value) }`
//! i.e. the subscriber's cell stays mutably borrowed for the whole user
//! callback.  `Subscriber::unsubscribe` (src/subscriber.rs:69-71) is
//! `self.0.rc_deref_mut().take()` on the same cell -> `RefCell already
//! borrowed` panic at src/rc.rs:88.  The unsubscription does not happen, the
//! panic unwinds through `Subject::next` (the remaining subscribers do not get
//! the in-flight item), and with `finalize` in the chain
//! `FinalizerSubscription::unsubscribe` (src/ops/finalize.rs:100-105) dies in
//! `self.subscription.unsubscribe()` (line 101) before it reaches the
//! finalizer (lines 102-104): the finalizer has run 0 times.
//!
//! The same holds for `complete`/`error` (observer.rs:120-130 keep the cell
//! borrowed across `o.complete()`), i.e. unsubscribing from the subscription's
//! own on_complete callback, and for `observable::create`, whose handle is
//! the same `Subscriber` (src/observable/from_fn.rs:31-35).
//!
//! Not in the "already known" list: that list has the `_threads` re-entrancy
//! (self-deadlock) and a callback unsubscribing its own *task handle*; this is
//! the local subject subscriber, and it is a panic, not a deadlock.  Local
//! re-entrancy panics of this kind were treated as defects and fixed elsewhere
//! (b528783 BehaviorSubject, 9fbd2e0 share, 01e8a77 merge_all).

use rxrust::prelude::*;
use std::cell::{Cell, RefCell};
use std::convert::Infallible;
use std::panic::{catch_unwind, AssertUnwindSafe};
use std::rc::Rc;

fn panic_text(e: Box<dyn std::any::Any + Send>) -> String {
  e.downcast_ref::<&str>()
    .map(|s| s.to_string())
    .or_else(|| e.downcast_ref::<String>().cloned())
    .unwrap_or_else(|| "<non-string panic>".into())
}

/// C06: subscriber A leaves from inside its own callback when it sees 1;
/// subscriber B just listens.  Expected: A = [1], B = [1, 2].
#[test]
fn c06_subscriber_unsubscribing_itself_inside_its_callback() {
  let mut subject = Subject::<'_, i32, Infallible>::default();

  let a_seen = Rc::new(RefCell::new(vec![]));
  let b_seen = Rc::new(RefCell::new(vec![]));

  let a_handle: Rc<RefCell<Option<BoxSubscription<'static>>>> =
    Rc::new(RefCell::new(None));
  let (a, h) = (a_seen.clone(), a_handle.clone());
  let sub_a = subject.clone().subscribe(move |v| {
    a.borrow_mut().push(v);
    if v == 1 {
      // bind first so that no borrow of `h` is alive during unsubscribe()
      let mine = h.borrow_mut().take();
      if let Some(mine) = mine {
        mine.unsubscribe();
      }
    }
  });
  *a_handle.borrow_mut() = Some(BoxSubscription::new(sub_a));

  let b = b_seen.clone();
  subject.clone().subscribe(move |v| b.borrow_mut().push(v));

  let run = catch_unwind(AssertUnwindSafe(|| {
    subject.next(1);
    subject.next(2);
  }));

  let outcome = run.map_err(panic_text);
  assert_eq!(
    (outcome, a_seen.borrow().clone(), b_seen.borrow().clone()),
    (Ok(()), vec![1], vec![1, 2]),
    "(result of next(1); next(2), items seen by A, items seen by B)"
  );
}

/// C15: the same with `finalize` and the RAII guard: the guard is dropped
/// inside the subscription's own `next`.  Expected: finalizer ran exactly once
/// and no item is delivered afterwards.
#[test]
fn c15_guard_dropped_inside_own_callback_runs_finalizer_once() {
  let mut subject = Subject::<'_, i32, Infallible>::default();

  let finalized = Rc::new(Cell::new(0));
  let seen = Rc::new(RefCell::new(vec![]));

  // the guard is type-erased through a boxed closure that drops it
  let drop_guard: Rc<RefCell<Option<Box<dyn FnOnce()>>>> =
    Rc::new(RefCell::new(None));

  let (f, s, d) = (finalized.clone(), seen.clone(), drop_guard.clone());
  let guard = subject
    .clone()
    .finalize(move || f.set(f.get() + 1))
    .subscribe(move |v| {
      s.borrow_mut().push(v);
      if v == 1 {
        let dropper = d.borrow_mut().take();
        if let Some(dropper) = dropper {
          dropper(); // drops the SubscriptionGuard -> unsubscribe()
        }
      }
    })
    .unsubscribe_when_dropped();
  *drop_guard.borrow_mut() = Some(Box::new(move || drop(guard)));

  let run = catch_unwind(AssertUnwindSafe(|| {
    subject.next(1);
    subject.next(2);
  }));

  let outcome = run.map_err(panic_text);
  assert_eq!(
    (outcome, finalized.get(), seen.borrow().clone()),
    (Ok(()), 1, vec![1]),
    "(result of next(1); next(2), finalizer runs, items seen)"
  );
}
