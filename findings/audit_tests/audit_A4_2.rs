//! AUDIT A4 / finding 2 - property C08 (and the "once per period" clause of
//! C19)
//!
//! Violated clause (C08): "interval and interval_at emit the consecutive
//! integers 0,1,2,... in order, the first one period after subscription [...]
//! and each later one exactly one period after the previous whenever the
//! executor runs as timers fall due".
//! (C19: "for a repeating task, once per period".)
//!
//! Mechanism: `RepeatTask::poll` (src/scheduler.rs:115-127) runs the task
//! body - which calls the whole downstream chain synchronously,
//! `interval_task` -> `observer.next(seq)` (src/observable/interval.rs:57-67)
//! - and only AFTER the body has returned creates the timer for the next
//! tick, with the full period: `let mut fur = new_timer(self.interval);`
//! (src/scheduler.rs:125). The period is therefore counted from the END of
//! the previous delivery, not from the previous tick: tick k+1 comes
//! `period + (time the subscriber took for tick k)` after tick k, and the
//! error accumulates. A simulator on a virtual clock cannot see this,
//! because callbacks take no virtual time.
//!
//! The program below uses a period of 200ms and a subscriber that needs 120ms
//! per item. The executor (a LocalPool, nothing else on it) is idle again
//! 80ms before each next tick is due, so it does "run as timers fall due";
//! the ticks must be 200ms apart. They are 320ms apart.
//! `buffer_with_time` / `buffer_with_count_and_time` share the mechanism
//! (their flush task is the same RepeatTask).

use futures::executor::LocalPool;
use rxrust::prelude::*;
use std::{
  cell::RefCell,
  rc::Rc,
  thread,
  time::{Duration, Instant},
};

const PERIOD: Duration = Duration::from_millis(200);
const WORK: Duration = Duration::from_millis(120);
/// generous allowance for timer and scheduling jitter
const SLACK: Duration = Duration::from_millis(60);

#[test]
fn interval_ticks_are_one_period_apart_with_a_busy_subscriber() {
  let mut pool = LocalPool::new();
  let stamps = Rc::new(RefCell::new(Vec::<(usize, Instant)>::new()));
  let s = stamps.clone();

  let subscribed = Instant::now();
  observable::interval(PERIOD, pool.spawner())
    .take(4)
    .subscribe(move |seq| {
      // the instant at which the item is emitted to the subscriber
      s.borrow_mut().push((seq, Instant::now()));
      thread::sleep(WORK); // a subscriber that takes a while, < PERIOD
    });
  pool.run();

  let stamps = stamps.borrow();
  let seqs: Vec<usize> = stamps.iter().map(|(v, _)| *v).collect();
  assert_eq!(seqs, vec![0, 1, 2, 3]);

  // sanity, these hold: first tick one period after subscription, no tick
  // early
  let first = stamps[0].1 - subscribed;
  assert!(first >= PERIOD && first < PERIOD + SLACK, "first tick {first:?}");

  let gaps: Vec<Duration> =
    stamps.windows(2).map(|w| w[1].1 - w[0].1).collect();
  for gap in &gaps {
    assert!(*gap >= PERIOD, "a tick came early: gaps {gaps:?}");
  }
  // the violated clause
  for gap in &gaps {
    assert!(
      *gap < PERIOD + SLACK,
      "ticks are not one period ({PERIOD:?}) apart although the executor was \
       idle when each fell due: gaps between consecutive ticks {gaps:?}; last \
       tick {:?} after subscription instead of {:?}",
      stamps[3].1 - subscribed,
      PERIOD * 4,
    );
  }
}
