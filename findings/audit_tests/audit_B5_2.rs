//! AUDIT B5 / finding 2 -- property C06 (Subjects deliver each item once, in
//! order, to exactly the current subscribers).
//!
//! Violated clause:
//!   "A subject ... delivers each item ... to exactly those subscribers that
//!    subscribed before that emission began and HAVE NOT UNSUBSCRIBED, AND
//!    DELIVERS A TERMINAL NOTIFICATION ONCE TO EACH OF THEM"
//!   quantified over "all sequences ... of the operations subscribe /
//!   unsubscribe-one / next / error / complete / clone / RETAIN / ...".
//!
//! Mechanism:
//!   src/subject.rs:124-128  `retain()` removes from the live list every
//!   subscriber for which `p_is_closed()` holds, and
//!   src/subscriber.rs:99-101 defines that as
//!       self.is_finished() || self.is_closed()
//!   i.e. it also removes subscribers that were never unsubscribed but whose
//!   observer merely *reports* finished (any operator chain that ended early
//!   downstream: take, take_while, first, take_until ...).  After that,
//!   `error` / `complete` (src/subject.rs:171-187) no longer reach them.
//!   Commit 79cbe48 deliberately made `error`/`complete` reach subscribers
//!   that "report finished but never unsubscribed" (so that e.g. a
//!   `complete_status()` placed above an early-ending operator is closed when
//!   the hot source terminates); `retain()` still filters on the very same
//!   predicate, so one `retain()` between the early end and the terminal
//!   brings the old behaviour back: the part of the chain between the subject
//!   and the early-ending operator never sees a terminal event, the status
//!   stays open and `CompleteStatus::wait_for_end` would block forever.
//!
//! History used (all from one thread, no callbacks involved):
//!   subscribe, next(1), retain, complete
//! `control_without_retain` (same history minus `retain`) passes.

use rxrust::prelude::*;
use std::cell::RefCell;
use std::convert::Infallible;
use std::rc::Rc;

/// A probe that has not been unsubscribed and says "finished" after its first
/// item -- exactly what `TakeObserver` & co. answer after they ended early.
struct Probe {
  log: Rc<RefCell<Vec<String>>>,
  seen: usize,
}

impl Observer<i32, &'static str> for Probe {
  fn next(&mut self, v: i32) {
    self.seen += 1;
    self.log.borrow_mut().push(format!("next({v})"));
  }
  fn error(self, e: &'static str) {
    self.log.borrow_mut().push(format!("error({e})"));
  }
  fn complete(self) {
    self.log.borrow_mut().push("complete".into());
  }
  fn is_finished(&self) -> bool {
    self.seen >= 1
  }
}

#[test]
fn control_without_retain() {
  let mut subject = Subject::<i32, Infallible>::default();
  let (source, status) = subject.clone().complete_status();
  let sub = source.take(1).subscribe(|_| {});
  subject.next(1);
  assert!(!sub.is_closed(), "the subscriber was never unsubscribed");
  subject.clone().complete();
  assert!(status.is_completed());
}

#[test]
fn retain_makes_a_live_subscriber_miss_complete() {
  let mut subject = Subject::<i32, Infallible>::default();
  let (source, status) = subject.clone().complete_status();
  let sub = source.take(1).subscribe(|_| {});

  subject.next(1);
  assert!(!sub.is_closed(), "the subscriber was never unsubscribed");
  assert_eq!(subject.len(), 1);

  subject.retain();
  subject.clone().complete();

  assert!(subject.is_finished());
  assert!(
    status.is_completed(),
    "subject completed, the subscriber never unsubscribed, yet the terminal \
     notification was not delivered to it (retain() dropped it because it \
     *reports* finished): CompleteStatus::wait_for_end would block forever"
  );
}

#[test]
fn retain_makes_a_live_subscriber_miss_error() {
  let log = Rc::new(RefCell::new(Vec::new()));
  let mut subject = Subject::<i32, &'static str>::default();
  let sub = subject
    .clone()
    .actual_subscribe(Probe { log: log.clone(), seen: 0 });

  subject.next(1);
  subject.retain();
  assert!(!sub.is_closed(), "the subscriber was never unsubscribed");
  subject.clone().error("boom");

  assert_eq!(
    *log.borrow(),
    vec!["next(1)".to_string(), "error(boom)".to_string()],
    "a subscriber that has not unsubscribed must get the terminal once"
  );
}
