//! Audit E2, finding 1 (C17, is_closed() soundness) -- BORDERLINE, see note.
//!
//! Violated clause (C17): "If `is_closed()` on a subscription returns true, no
//! further notification is ever delivered through that subscription".
//!
//! `BehaviorSubject` implements `Subscription` (src/subject/behavior_subject.rs
//! :47-61); `is_closed()` is forwarded to the inner subject and answers true
//! once the subject was unsubscribed, completed or failed (src/subject.rs:79-81,
//! `observers` is `None`). A plain `Subject` in that state delivers nothing to
//! anybody any more (src/subject.rs:230-238: with the chamber gone the new
//! subscriber is created empty; after complete/error it is parked in the chamber
//! and never loaded). `BehaviorSubject`, however,
//!   * keeps accepting `next`: src/subject/behavior_subject.rs:26-29 stores the
//!     item in the value cell before (and regardless of whether) the closed
//!     inner subject drops it, and
//!   * `actual_subscribe` (src/subject/behavior_subject.rs:88-95) calls
//!     `observer.next(value)` unconditionally, without looking at the state of
//!     the inner subject,
//! so a handle that reports `is_closed() == true` still delivers items -- even
//! items emitted after it was closed -- to whoever subscribes next. After
//! `complete()` that subscriber gets an item *after* the terminal event of the
//! subject and never a completion; after `unsubscribe()` it gets an item through
//! a torn-down subject and is handed back an already closed subscription.
//!
//! NOTE: the subscription type here is the subject itself (the `Subscription`
//! impl of `BehaviorSubject`), not a subscription returned by `subscribe`. The
//! subscriptions returned by `subscribe` are sound in these histories.

use rxrust::prelude::*;
use std::cell::RefCell;
use std::convert::Infallible;
use std::rc::Rc;

type BS = BehaviorSubject<i32, Subject<'static, i32, Infallible>>;

fn deliveries_after_closed(close: impl FnOnce(BS)) -> Vec<i32> {
  let mut bs: BS = BehaviorSubject::new(1);

  // one ordinary subscriber, so that the history is not degenerate
  let first = Rc::new(RefCell::new(vec![]));
  let c_first = first.clone();
  let _keep = bs.clone().subscribe(move |v| c_first.borrow_mut().push(v));
  assert_eq!(*first.borrow(), vec![1]);

  close(bs.clone());
  assert!(bs.is_closed(), "the subject handle must report closed");

  // emitted into a closed subject: nobody may ever see it
  bs.next(2);
  assert_eq!(*first.borrow(), vec![1]);
  assert!(bs.is_closed());

  // everything delivered from here on is delivered through a handle that
  // has answered is_closed() == true
  let late = Rc::new(RefCell::new(vec![]));
  let c_late = late.clone();
  let _sub = bs.clone().subscribe(move |v| c_late.borrow_mut().push(v));
  assert!(bs.is_closed(), "is_closed() must stay true");
  let got = late.borrow().clone();
  got
}

#[test]
fn closed_by_unsubscribe_delivers_nothing_more() {
  let got = deliveries_after_closed(|bs| bs.unsubscribe());
  assert!(
    got.is_empty(),
    "BehaviorSubject reported is_closed()==true after unsubscribe(), yet \
     delivered {got:?} to a later subscriber"
  );
}

#[test]
fn closed_by_complete_delivers_nothing_more() {
  let got = deliveries_after_closed(|bs| bs.complete());
  assert!(
    got.is_empty(),
    "BehaviorSubject reported is_closed()==true after complete(), yet \
     delivered {got:?} to a later subscriber"
  );
}
