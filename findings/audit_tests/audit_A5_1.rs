//! AUDIT A5 / finding 1 -- property C16
//! "Ending a stream early retires the producers that feed it"
//!
//! Violated clause (C16 statement):
//!   "When an operator ends the stream early (take, first, element_at, ...)
//!    every producer feeding that subscriber stops working on its behalf:
//!    periodic and asynchronous sources retire their task within one period,
//!    so that running a local scheduler until idle terminates, and iterator
//!    sources stop pulling further items."
//!
//! Boundary parameter: `take(0)`.
//!
//! The crate documents `take` (src/observable.rs:684-689) as: "Emits only the
//! first `count` values emitted by the source Observable. [...] After that, it
//! completes, regardless if the source completes."  For `count == 0` the
//! subscriber is owed nothing more from the very beginning, i.e. `take(0)` is
//! the earliest possible early end of a stream (it is `empty()` in every Rx
//! implementation).
//!
//! Mechanism (src/ops/take.rs):
//!   * `TakeObserver::next` (take.rs:47-58) only ever completes the downstream
//!     inside the branch `if self.hits < self.count { .. if self.hits ==
//!     self.count { complete } }`.  With `count == 0` the guard `0 < 0` is
//!     false for every item, so the branch is never entered: nothing is
//!     forwarded (correct) but the downstream is never completed and
//!     `self.observer` is never taken.
//!   * `TakeOp::actual_subscribe` (take.rs:22-29) does not complete the
//!     observer up front for `count == 0` either.
//!   * `TakeObserver::is_finished` (take.rs:73-75) therefore keeps answering
//!     `false` (`self.observer` stays `Some`), and that is the only signal the
//!     producers look at:
//!       - `interval_task` (src/observable/interval.rs:57-68) keeps ticking
//!         for ever -> `LocalPool::run()` never returns;
//!       - `ObservableIter::actual_subscribe` (src/observable/from_iter.rs:
//!         51-61, `while !observer.is_finished()`) pulls the iterator dry
//!         (and spins for ever on an unbounded iterator such as `0..`).
//!   Compare `take(1)`: one tick / one pull, then the producer retires.
//!
//! The same hole is inherited by nothing else (`first` = take(1),
//! `element_at(n)` = skip(n).take(1)); it is specific to the zero count.

use futures::executor::LocalPool;
use rxrust::prelude::*;
use std::sync::{
  atomic::{AtomicBool, AtomicUsize, Ordering},
  mpsc, Arc,
};
use std::time::Duration;

const PERIOD: Duration = Duration::from_millis(5);

/// Runs `interval(PERIOD).tap(count).take(n)` on a LocalPool in a helper
/// thread and reports whether `pool.run()` came back within `wait`.
fn interval_take_retires(n: usize, wait: Duration) -> (bool, usize, bool) {
  let ticks = Arc::new(AtomicUsize::new(0));
  let completed = Arc::new(AtomicBool::new(false));
  let (tx, rx) = mpsc::channel();
  {
    let ticks = ticks.clone();
    let completed = completed.clone();
    std::thread::spawn(move || {
      let mut pool = LocalPool::new();
      observable::interval(PERIOD, pool.spawner())
        // tap counter upstream of the cutting operator
        .tap(move |_| {
          ticks.fetch_add(1, Ordering::SeqCst);
        })
        .take(n)
        .on_complete(move || completed.store(true, Ordering::SeqCst))
        .subscribe(|_| {});
      // "running a local scheduler until idle terminates"
      pool.run();
      let _ = tx.send(());
    });
  }
  let returned = rx.recv_timeout(wait).is_ok();
  (
    returned,
    ticks.load(Ordering::SeqCst),
    completed.load(Ordering::SeqCst),
  )
}

#[test]
fn control_take_1_retires_the_interval() {
  // sanity: the very same harness passes for take(1)
  let (returned, ticks, completed) =
    interval_take_retires(1, Duration::from_millis(1500));
  assert!(returned, "take(1): pool.run() did not return");
  assert!(completed);
  assert!(ticks <= 2, "take(1): {ticks} ticks");
}

#[test]
fn take_0_retires_the_interval() {
  // 1500 ms = 300 periods of grace for a task that has to retire within one.
  let (returned, ticks, completed) =
    interval_take_retires(0, Duration::from_millis(1500));
  assert!(
    returned && ticks <= 2,
    "interval(5ms).take(0): the periodic producer was not retired: \
     pool.run() returned = {returned}, ticks produced upstream of take(0) \
     after 1.5s = {ticks}, downstream completed = {completed}"
  );
}

#[test]
fn take_0_stops_pulling_the_iterator() {
  // pull counter in the harness iterator (finite, so that the test itself
  // cannot spin for ever: with `0..` instead of `0..1000` the subscribe call
  // below never returns on the current code)
  let pulls = Arc::new(AtomicUsize::new(0));
  let counting = {
    let pulls = pulls.clone();
    (0..1000).inspect(move |_| {
      pulls.fetch_add(1, Ordering::SeqCst);
    })
  };
  let mut seen = 0usize;
  observable::from_iter(counting)
    .take(0)
    .subscribe(|_| seen += 1);
  assert_eq!(seen, 0);

  // control: take(1) pulls exactly one item
  let pulls1 = Arc::new(AtomicUsize::new(0));
  let counting1 = {
    let pulls1 = pulls1.clone();
    (0..1000).inspect(move |_| {
      pulls1.fetch_add(1, Ordering::SeqCst);
    })
  };
  observable::from_iter(counting1).take(1).subscribe(|_| {});
  assert_eq!(pulls1.load(Ordering::SeqCst), 1);

  let pulls = pulls.load(Ordering::SeqCst);
  assert!(
    pulls <= 1,
    "from_iter(0..1000).take(0): the iterator source kept pulling on behalf \
     of a subscriber that can never receive anything: {pulls} items pulled \
     (take(1) pulls 1)"
  );
}
