// AUDIT A3 / finding 2 -- property C12
//
// Violated clause (C12): "A new subscriber of a BehaviorSubject first receives
// the most recent value passed to any clone of it (or the initial value if
// none), then every later item exactly once; `peek()` always returns that most
// recent value".
//
// Mechanism (local form, no threads, no panic involved):
//
//   src/subject/behavior_subject.rs:92-93
//       `let value = self.value.rc_deref().clone(); observer.next(value);`
//       hands the current value to the new observer *directly*,
//   src/subject/behavior_subject.rs:94
//       and only afterwards `self.subject.actual_subscribe(observer)` puts the
//       observer into the inner subject's chamber (src/subject.rs:231-234).
//
// Between those two steps the observer is in neither of the subject's lists.
// Anything passed to (a clone of) the BehaviorSubject in that window is stored
// in the value cell (behavior_subject.rs:27) and broadcast to the *other*
// subscribers (behavior_subject.rs:28), but the new subscriber -- which has
// already been given the now outdated "current" value -- never gets it. The
// only code that runs in the window is the new subscriber's own first `next`,
// so the history is: a subscriber that reacts to the value it is handed by
// pushing a corrected value back (a clamp / normaliser, the usual
// "state + reducer" wiring). Emitting from inside that first `next` is a
// supported history: the comment at behavior_subject.rs:89-91 (fix b528783)
// names "emits into this subject again from inside its first `next`"
// explicitly, and it does not panic.
//
// Result: the new subscriber has seen [-5] only, every other subscriber has
// seen [-5, 0], `peek()` says 0. The item 0 is a "later item" for the new
// subscriber (it was passed after the subscriber received its first value)
// and is delivered to it zero times instead of exactly once; the subscriber's
// view and `peek()` disagree from then on.
//
// (RxJS joins the observer list first and replays the current value second,
// so there the re-entrant item reaches the new subscriber.)

use rxrust::prelude::*;
use std::{cell::RefCell, convert::Infallible, rc::Rc};

type Bs = BehaviorSubject<i32, Subject<'static, i32, Infallible>>;

#[test]
fn new_subscriber_misses_item_emitted_during_its_first_next() {
  let state: Bs = BehaviorSubject::new(-5);

  // an ordinary, earlier subscriber: the reference view
  let earlier = Rc::new(RefCell::new(Vec::new()));
  let c_earlier = earlier.clone();
  state.clone().subscribe(move |v| c_earlier.borrow_mut().push(v));

  // the new subscriber clamps negative values to 0 by writing back
  let clamp = Rc::new(RefCell::new(Vec::new()));
  let c_clamp = clamp.clone();
  let mut writer = state.clone();
  state.clone().subscribe(move |v| {
    c_clamp.borrow_mut().push(v);
    if v < 0 {
      writer.next(0);
    }
  });

  // the value cell and the earlier subscriber agree that 0 was emitted ...
  assert_eq!(state.peek(), 0);
  assert_eq!(*earlier.borrow(), vec![-5, 0]);
  // ... after the new subscriber got its first value, so it is owed that item
  assert_eq!(
    *clamp.borrow(),
    vec![-5, 0],
    "new subscriber got the current value but not the item emitted after it"
  );
}

// Control: once the subscriber has joined, the same write-back is not
// silently lost (a later, non re-entrant emission reaches it exactly once).
#[test]
fn control_later_items_reach_that_subscriber() {
  let mut state: Bs = BehaviorSubject::new(1);
  let seen = Rc::new(RefCell::new(Vec::new()));
  let c_seen = seen.clone();
  state.clone().subscribe(move |v| c_seen.borrow_mut().push(v));
  state.next(2);
  state.next_by(|v| v + 1);
  assert_eq!(*seen.borrow(), vec![1, 2, 3]);
  assert_eq!(state.peek(), 3);
}
