//! AUDIT E3 / finding 2 -- property C12
//!
//! Violated clause (C12):
//!   "`peek()` always returns that most recent value and `next_by(f)` emits f
//!    applied to it.  Over the thread-safe subject with concurrent producers,
//!    the most recent value is the one delivered last in the common order that
//!    all subscribers observe."
//!
//! Mechanism: `Behavior::next_by` (src/behavior.rs:41-44) is
//!     let data = f(self.peek());   // critical section 1: read the value cell
//!     self.next(data);             // later: store + broadcast
//! i.e. a read-modify-write whose read and write are separate acquisitions of
//! the shared value cell (peek: src/subject/behavior_subject.rs:111-113,
//! store: behavior_subject.rs:27).  `BehaviorSubject<_, SubjectThreads<_, _>>`
//! is `Send` and its clones share that cell, so two threads can both read the
//! same "most recent value", both apply their function to it, and both emit
//! the result: one update is lost.  With two `next_by(|v| v + 1)` on a subject
//! holding 0 every subscriber observes 0, 1, 1 and `peek()` ends at 1; the
//! second 1 was emitted when the most recent value, in the order every
//! subscriber saw, was already 1 -- so it is not f applied to the most recent
//! value.  No ordering of the two `next_by` calls explains the outcome: either
//! order gives 0, 1, 2.
//!
//! This is a different defect from the already known one ("`next` stores the
//! value and broadcasts it in two separate critical sections"): making `next`
//! atomic does not make `next_by` atomic, the stale read happens before `next`
//! is even entered.
//!
//! The interleaving is forced with channels from inside the update function of
//! the first thread (it only waits, it does not touch the subject).  The wait
//! has a timeout, so an implementation that keeps the second `next_by` out
//! while the first is in progress does not hang the test, it passes it.

use rxrust::prelude::*;
use std::convert::Infallible;
use std::sync::{mpsc, Arc, Mutex};
use std::time::Duration;

#[test]
fn concurrent_next_by_loses_an_update() {
  let subject =
    BehaviorSubject::<i32, SubjectThreads<i32, Infallible>>::new(0);

  let seen = Arc::new(Mutex::new(Vec::new()));
  let c_seen = seen.clone();
  subject
    .clone()
    .subscribe(move |v| c_seen.lock().unwrap().push(v));

  let (reading_tx, reading_rx) = mpsc::channel::<()>();
  let (other_done_tx, other_done_rx) = mpsc::channel::<()>();

  // thread 1: increments; its update function is slow
  let mut first = subject.clone();
  let t1 = std::thread::spawn(move || {
    first.next_by(move |v| {
      reading_tx.send(()).unwrap();
      let _ = other_done_rx.recv_timeout(Duration::from_secs(2));
      v + 1
    });
  });

  // thread 2: increments while thread 1 is between its read and its write
  let mut second = subject.clone();
  let t2 = std::thread::spawn(move || {
    reading_rx.recv().unwrap();
    second.next_by(|v| v + 1);
    let _ = other_done_tx.send(());
  });

  t1.join().unwrap();
  t2.join().unwrap();

  assert_eq!(
    *seen.lock().unwrap(),
    vec![0, 1, 2],
    "two next_by(|v| v + 1) on a subject holding 0: each must emit f applied \
     to the most recent value"
  );
  assert_eq!(subject.peek(), 2);
}
