//! AUDIT B6 / finding 1 -- property C18
//!
//! Violated clause (C18): "For every pipeline and every single-threaded
//! history of input events, replacing each operator, subject and subscription
//! type by its thread-safe counterpart (the `_threads` / `Threads` forms)
//! yields EXACTLY THE SAME delivered notification sequence."
//!
//! Pipeline (local form):
//!   Subject -> group_by::<_, _, Subject<_, _>>(k) -> flat_map(|g| g.reduce_initial(0, +))
//! Pipeline (thread-safe form, everything else identical):
//!   SubjectThreads -> group_by::<_, _, SubjectThreads<_, _>>(k)
//!                  -> flat_map_threads(|g| g.reduce_initial(0, +))
//! History (single thread, identical for both): next(0) .. next(23), complete.
//!
//! Mechanism
//! ---------
//! `GroupByObserver` keeps its group subjects in a `std::collections::HashMap`
//! with the default `RandomState` hasher (src/ops/group_by.rs:32-36,
//! `subjects: HashMap<Key, Subject>`, created by `<_>::default()` at
//! src/ops/group_by.rs:77-81). When the source terminates, the terminal is
//! fanned out to the groups by ITERATING that map:
//!
//!   src/ops/group_by.rs:119-124  error():    for (_, subject) in self.subjects.drain() { subject.error(err.clone()) }
//!   src/ops/group_by.rs:127-132  complete(): for (_, subject) in self.subjects.drain() { subject.complete() }
//!
//! The iteration order of a `HashMap` depends on the per-instance random hash
//! seed (every `RandomState::new()` gets different keys), not on the input. So
//! the order in which the groups complete / fail is different for every
//! subscription, even for the very same input history. Everything a group
//! emits *on its terminal* (`reduce`, `last`, `count`, `sum`, `take_last`,
//! `collect`, `default_if_empty`, `buffer_with_count` remainder ...) therefore
//! reaches the downstream subscriber in an order that is not a function of the
//! pipeline and its input. The local run and the `_threads` run use two
//! different HashMap instances, hence deliver different sequences (and so do
//! two runs of the same form). The doc example of `group_by`
//! (src/observable.rs:347-361) even promises a fixed output order
//! ("John / Anne Alice / Gregory") that the implementation cannot guarantee.
//!
//! Combined with the already known "hot inner observable that completed before
//! concat_all subscribed to it never completes", the same root cause makes
//! even the PRESENCE of the terminal random: `group_by(parity).concat_map(|g| g)`
//! completes when the odd group happens to be drained first and hangs (no
//! terminal at all) when the even group is drained first -- second test below.
//!
//! No scheduler, no threads, no user callback re-entering the pipeline and no
//! panics are involved; the tests are deterministic up to the probability that
//! two independently seeded hash maps iterate 12 keys in the same order
//! (1/12! ~ 2e-9) resp. that 40 fair coin pairs all agree (2^-40).

use rxrust::prelude::*;
use std::cell::RefCell;
use std::rc::Rc;
use std::sync::{Arc, Mutex};

#[derive(Clone, Debug, PartialEq)]
enum Ev {
  Next(i32),
  Error,
  Complete,
}

/// recording probe, local form
struct Probe(Rc<RefCell<Vec<Ev>>>);
impl Observer<i32, ()> for Probe {
  fn next(&mut self, v: i32) {
    self.0.borrow_mut().push(Ev::Next(v));
  }
  fn error(self, _: ()) {
    self.0.borrow_mut().push(Ev::Error);
  }
  fn complete(self) {
    self.0.borrow_mut().push(Ev::Complete);
  }
  fn is_finished(&self) -> bool {
    false
  }
}

/// recording probe, thread-safe form
struct ProbeThreads(Arc<Mutex<Vec<Ev>>>);
impl Observer<i32, ()> for ProbeThreads {
  fn next(&mut self, v: i32) {
    self.0.lock().unwrap().push(Ev::Next(v));
  }
  fn error(self, _: ()) {
    self.0.lock().unwrap().push(Ev::Error);
  }
  fn complete(self) {
    self.0.lock().unwrap().push(Ev::Complete);
  }
  fn is_finished(&self) -> bool {
    false
  }
}

const GROUPS: i32 = 12;

fn reduce_groups_local() -> Vec<Ev> {
  let trace = Rc::new(RefCell::new(vec![]));
  let mut source = Subject::<i32, ()>::default();
  source
    .clone()
    .group_by::<_, _, Subject<_, _>>(|v| *v % GROUPS)
    .flat_map(|group| group.reduce_initial(0, |acc, v| acc + v))
    .actual_subscribe(Probe(trace.clone()));
  for i in 0..2 * GROUPS {
    source.next(i);
  }
  source.complete();
  let t = trace.borrow().clone();
  t
}

fn reduce_groups_threads() -> Vec<Ev> {
  let trace = Arc::new(Mutex::new(vec![]));
  let mut source = SubjectThreads::<i32, ()>::default();
  source
    .clone()
    .group_by::<_, _, SubjectThreads<_, _>>(|v| *v % GROUPS)
    .flat_map_threads(|group| group.reduce_initial(0, |acc, v| acc + v))
    .actual_subscribe(ProbeThreads(trace.clone()));
  for i in 0..2 * GROUPS {
    source.next(i);
  }
  source.complete();
  let t = trace.lock().unwrap().clone();
  t
}

#[test]
fn group_by_reduce_local_and_threads_deliver_the_same_sequence() {
  let local = reduce_groups_local();
  let threads = reduce_groups_threads();

  // sanity: both runs deliver the same multiset of notifications (one sum per
  // group, then one completion) -- only the order is in question.
  let mut l = local.clone();
  let mut t = threads.clone();
  assert_eq!(l.pop(), Some(Ev::Complete));
  assert_eq!(t.pop(), Some(Ev::Complete));
  let key = |e: &Ev| match e {
    Ev::Next(v) => *v,
    _ => i32::MAX,
  };
  l.sort_by_key(key);
  t.sort_by_key(key);
  assert_eq!(l, t, "the two forms do not even deliver the same items");
  assert_eq!(l.len(), GROUPS as usize);

  // C18: exactly the same delivered notification sequence.
  assert_eq!(
    local, threads,
    "C18 violated: same pipeline, same single-threaded input history, but \
     the local form and the _threads form deliver different sequences"
  );
}

fn concat_groups_local() -> Vec<Ev> {
  let trace = Rc::new(RefCell::new(vec![]));
  let mut source = Subject::<i32, ()>::default();
  source
    .clone()
    .group_by::<_, _, Subject<_, _>>(|v| *v % 2)
    .concat_map(|group| group)
    .actual_subscribe(Probe(trace.clone()));
  for i in 1..=4 {
    source.next(i);
  }
  source.complete();
  let t = trace.borrow().clone();
  t
}

fn concat_groups_threads() -> Vec<Ev> {
  let trace = Arc::new(Mutex::new(vec![]));
  let mut source = SubjectThreads::<i32, ()>::default();
  source
    .clone()
    .group_by::<_, _, SubjectThreads<_, _>>(|v| *v % 2)
    .concat_map_threads(|group| group)
    .actual_subscribe(ProbeThreads(trace.clone()));
  for i in 1..=4 {
    source.next(i);
  }
  source.complete();
  let t = trace.lock().unwrap().clone();
  t
}

#[test]
fn group_by_concat_local_and_threads_agree_on_the_terminal() {
  // Same program and history, 40 times over: whether the subscriber gets its
  // completion at all depends on which of the two groups the hash map happens
  // to drain first.
  let mut differing = vec![];
  for round in 0..40 {
    let local = concat_groups_local();
    let threads = concat_groups_threads();
    if local != threads {
      differing.push((round, local, threads));
    }
  }
  assert!(
    differing.is_empty(),
    "C18 violated: local and _threads traces differ in {} of 40 rounds, e.g. \
     round {}: local {:?} vs threads {:?}",
    differing.len(),
    differing[0].0,
    differing[0].1,
    differing[0].2
  );
}
