//! AUDIT D3 / finding 1 -- property C07 (scheduler-moving operators preserve
//! the source's sequence), error path of the local `delay`.
//!
//! Violated clause (C07): "observe_on, delay, delay_subscription and
//! subscribe_on (...) deliver the source's items in the source's order - all
//! of them when the source completes, a prefix of them when it fails -
//! FOLLOWED BY THE SOURCE'S TERMINAL".
//!
//! Program: a hot `Subject` piped through `delay(10ms, LocalPool)`. The
//! subscriber, on receiving the (delayed) item 1, fails the source:
//! `subject.error("boom")`. At that moment the subject is idle (the item is
//! being delivered from a pool task, not from inside `subject.next`), so for
//! the source this is the plain linear history `next(1) ... error("boom")`.
//!
//! Expected by C07: the output is `1` followed by the error, exactly once.
//! Observed: the error is never delivered to the output (neither is any other
//! terminal), and items that were still pending are delivered *after* the
//! source has failed.
//!
//! Mechanism:
//!  * the delayed item is delivered by the pool task `delay_emit_value`
//!    (src/ops/delay.rs:90-95) through `Observer::next` of
//!    `MutRc<Option<O>>` (src/observer.rs:114-118), which keeps the `RefCell`
//!    mutably borrowed for the whole downstream call;
//!  * unlike `next` and `complete`, which `delay` hands to the scheduler
//!    (src/ops/delay.rs:97-101, 118-123), `DelayObserver::error` goes straight
//!    to that same cell: `self.observer.error(err)` (src/ops/delay.rs:104-107)
//!    -> `self.rc_deref_mut().take()` (src/observer.rs:120-123,
//!    src/rc.rs:87-89) -> `BorrowMutError` ("RefCell already borrowed");
//!  * this library-internal panic unwinds through the user's callback into the
//!    scheduler's `Remote` wrapper, whose `catch_unwind`
//!    (src/scheduler.rs:260-275, 284-287) silently stores it in the task
//!    handle. The `DelayObserver` (taken out of the subject by
//!    `Subject::error`, src/subject.rs:171-178) and the error value are
//!    dropped during the unwind, so the terminal is lost for good; the
//!    downstream observer stays in its cell and the remaining delayed tasks
//!    keep delivering items.
//!
//! The two control tests show that the expectation is not exotic: the very
//! same program is handled correctly when the terminal issued from inside the
//! delivery is `complete` (scheduled by `delay`), and when the operator is
//! `observe_on` (which schedules the error as well,
//! src/ops/observe_on.rs:79-92).

use futures::executor::LocalPool;
use rxrust::prelude::*;
use std::{cell::RefCell, rc::Rc, time::Duration};

type Log = Rc<RefCell<Vec<String>>>;

/// Checks the C07 clause on a recorded output: a prefix of `items`, then
/// exactly one terminal equal to `terminal`, and nothing after it.
fn assert_prefix_then_terminal(out: &[String], items: &[i32], terminal: &str) {
  let terminals = out
    .iter()
    .filter(|e| e.starts_with('E') || e.as_str() == "C")
    .count();
  assert_eq!(
    terminals, 1,
    "the source terminated with {terminal:?}: the output must carry exactly \
     one terminal, got {out:?}"
  );
  assert_eq!(
    out.last().map(String::as_str),
    Some(terminal),
    "nothing may follow the terminal {terminal:?}, got {out:?}"
  );
  let delivered = &out[..out.len() - 1];
  let expected: Vec<String> = items.iter().map(|v| v.to_string()).collect();
  assert!(
    delivered.len() <= expected.len() && delivered == &expected[..delivered.len()],
    "items must be a prefix of {expected:?}, got {out:?}"
  );
}

/// The source fails while the delayed item 1 is being delivered.
#[test]
fn delay_loses_error_raised_while_a_delayed_item_is_delivered() {
  let mut pool = LocalPool::new();
  let log: Log = Rc::new(RefCell::new(vec![]));
  let mut source = Subject::<i32, &'static str>::default();

  let fail = source.clone();
  let (l_next, l_err, l_done) = (log.clone(), log.clone(), log.clone());
  source
    .clone()
    .delay(Duration::from_millis(10), pool.spawner())
    .on_complete(move || l_done.borrow_mut().push("C".into()))
    .on_error(move |e| l_err.borrow_mut().push(format!("E{e}")))
    .subscribe(move |v| {
      l_next.borrow_mut().push(v.to_string());
      if v == 1 {
        // the source fails now; it is idle, this is not a nested `next`
        fail.clone().error("boom");
      }
    });

  source.next(1);
  source.next(2);
  // runs until every scheduled task is done
  pool.run();

  // the source did terminate with the error
  assert!(source.is_closed(), "the subject has terminated");
  let out = log.borrow().clone();
  assert_prefix_then_terminal(&out, &[1, 2], "Eboom");
}

/// Same program, one item only: the simplest history `next(1), error`.
#[test]
fn delay_single_item_then_error_from_its_delivery() {
  let mut pool = LocalPool::new();
  let log: Log = Rc::new(RefCell::new(vec![]));
  let mut source = Subject::<i32, &'static str>::default();

  let fail = source.clone();
  let (l_next, l_err) = (log.clone(), log.clone());
  source
    .clone()
    .delay(Duration::from_millis(10), pool.spawner())
    .on_error(move |e| l_err.borrow_mut().push(format!("E{e}")))
    .subscribe(move |v| {
      l_next.borrow_mut().push(v.to_string());
      fail.clone().error("boom");
    });

  source.next(1);
  pool.run();

  assert_eq!(*log.borrow(), vec!["1".to_string(), "Eboom".to_string()]);
}

/// Control 1: the same program with `complete` instead of `error` works,
/// because `delay` schedules the completion instead of touching the borrowed
/// cell.
#[test]
fn control_delay_complete_raised_while_a_delayed_item_is_delivered() {
  let mut pool = LocalPool::new();
  let log: Log = Rc::new(RefCell::new(vec![]));
  let mut source = Subject::<i32, &'static str>::default();

  let finish = source.clone();
  let (l_next, l_err, l_done) = (log.clone(), log.clone(), log.clone());
  source
    .clone()
    .delay(Duration::from_millis(10), pool.spawner())
    .on_complete(move || l_done.borrow_mut().push("C".into()))
    .on_error(move |e| l_err.borrow_mut().push(format!("E{e}")))
    .subscribe(move |v| {
      l_next.borrow_mut().push(v.to_string());
      if v == 1 {
        finish.clone().complete();
      }
    });

  source.next(1);
  pool.run();

  let out = log.borrow().clone();
  assert_prefix_then_terminal(&out, &[1], "C");
}

/// Control 2: the same program through `observe_on` delivers the error.
#[test]
fn control_observe_on_error_raised_while_an_item_is_delivered() {
  let mut pool = LocalPool::new();
  let log: Log = Rc::new(RefCell::new(vec![]));
  let mut source = Subject::<i32, &'static str>::default();

  let fail = source.clone();
  let (l_next, l_err, l_done) = (log.clone(), log.clone(), log.clone());
  source
    .clone()
    .observe_on(pool.spawner())
    .on_complete(move || l_done.borrow_mut().push("C".into()))
    .on_error(move |e| l_err.borrow_mut().push(format!("E{e}")))
    .subscribe(move |v| {
      l_next.borrow_mut().push(v.to_string());
      if v == 1 {
        fail.clone().error("boom");
      }
    });

  source.next(1);
  source.next(2);
  pool.run();

  let out = log.borrow().clone();
  assert_prefix_then_terminal(&out, &[1, 2], "Eboom");
}
