// AUDIT A3 / finding 3 -- property C12, thread-safe form
// (same root cause as audit_A3_2, reached without any re-entrancy)
//
// Violated clause (C12): "A new subscriber of a BehaviorSubject first receives
// the most recent value passed to any clone of it (or the initial value if
// none), then every later item exactly once" -- here with ONE producer thread
// and one late subscriber, so "most recent" is unambiguous.
//
// Mechanism: `BehaviorSubject::actual_subscribe` is three separate steps
//
//   src/subject/behavior_subject.rs:92  read the value cell (lock taken and
//                                       released),
//   src/subject/behavior_subject.rs:93  `observer.next(value)` outside of any
//                                       lock, observer not registered anywhere,
//   src/subject/behavior_subject.rs:94  `self.subject.actual_subscribe(..)`
//                                       pushes the observer into the chamber
//                                       (src/subject.rs:231-234).
//
// A complete `next(1)` of the producer (store at behavior_subject.rs:27 +
// broadcast at :28 / src/subject.rs:162-169) fits between step 1 and step 3.
// The late subscriber is handed 0, the producer's 1 goes to everybody else,
// then the late subscriber joins: it has seen 0, never sees 1, and `peek()`
// is 1. No linearisation of the subscribe explains that: if it took effect
// before `next(1)` the subscriber is owed 1 as a "later item", if it took
// effect after, its first value had to be 1.
//
// This is NOT the already known defect ("`next` stores the value and
// broadcasts it in two separate critical sections ... under concurrent
// producers"): there is a single producer, its `next` runs without any
// interference from start to end, and making `next` one critical section would
// not close this window -- it is the *subscribe* side that is not atomic.
//
// The interleaving is forced with channels (no sleeps): the late subscriber's
// first callback simply takes long -- it reports that it was called and waits
// until the producer's `next(1)` has returned. It does not touch the subject.

use rxrust::prelude::*;
use std::{
  convert::Infallible,
  sync::{mpsc, Arc, Mutex},
  thread,
  time::Duration,
};

type Bs = BehaviorSubject<i32, SubjectThreads<i32, Infallible>>;

#[test]
fn late_subscriber_misses_item_emitted_while_it_receives_current_value() {
  let state: Bs = BehaviorSubject::new(0);

  // reference view: an ordinary subscriber that joined before everything
  let earlier = Arc::new(Mutex::new(Vec::new()));
  let c_earlier = earlier.clone();
  state
    .clone()
    .subscribe(move |v| c_earlier.lock().unwrap().push(v));

  let (in_first_tx, in_first_rx) = mpsc::channel::<()>();
  let (produced_tx, produced_rx) = mpsc::channel::<()>();

  let late = Arc::new(Mutex::new(Vec::new()));
  let c_late = late.clone();
  let to_subscribe = state.clone();
  let subscriber_thread = thread::spawn(move || {
    let mut first = true;
    to_subscribe.subscribe(move |v| {
      c_late.lock().unwrap().push(v);
      if first {
        first = false;
        // a slow first callback: wait until the producer is done
        in_first_tx.send(()).unwrap();
        produced_rx
          .recv_timeout(Duration::from_secs(20))
          .expect("producer never finished");
      }
    });
  });

  // the late subscriber is inside its first `next` (it was handed 0)
  in_first_rx
    .recv_timeout(Duration::from_secs(20))
    .expect("late subscriber never got its first value");

  // single producer: one complete, undisturbed emission
  let mut producer = state.clone();
  producer.next(1);
  produced_tx.send(()).unwrap();
  subscriber_thread.join().unwrap();

  assert_eq!(state.peek(), 1);
  assert_eq!(*earlier.lock().unwrap(), vec![0, 1]);

  // the hole is permanent: later items arrive, 1 never does
  producer.next(2);
  assert_eq!(*earlier.lock().unwrap(), vec![0, 1, 2]);
  assert_eq!(
    *late.lock().unwrap(),
    vec![0, 1, 2],
    "late subscriber was handed 0 as current value and then never got 1"
  );
}
