//! AUDIT D1, finding 2 -- property C11 (and the robustness clause of C01)
//!
//! Violated clause (C11): "`share()` subscribes to the source exactly once
//! however many subscribers join, every subscriber present at an emission
//! receives it".
//! (C01 promises the same robustness from the other side: the grammar "holds
//! even when hot inputs keep emitting after they or the pipeline have
//! terminated" -- here a hot input cannot keep emitting at all.)
//!
//! History: two subscribers join one shared hot observable, one of them through
//! the stream conversion `to_stream()`. The stream's consumer goes away (the
//! stream is dropped: there is no other way for that subscriber to leave, the
//! conversion hands out no subscription). From then on every emission of the
//! source panics inside the library and the other subscriber, which is
//! present at these emissions, does not receive them.
//!
//! Mechanism. `ObservableStream::new` subscribes an `ObservableStreamObserver`
//! that forwards into an unbounded channel (src/ops/stream.rs:24-33). Its
//! `next`/`error`/`complete` do
//!
//!   self.sender.unbounded_send(..).expect("failed to send value to stream")
//!                                          (src/ops/stream.rs:68-73,75-80,82-87)
//!
//! and a send into a channel whose receiver was dropped is an `Err`, so the
//! `expect` panics. The observer does report the closed channel through
//! `is_finished()` (src/ops/stream.rs:89-91), but a subject delivers to its
//! subscribers whatever they report (src/subject.rs:162-169; the subscriber
//! list is never pruned, `Subject::retain` is not called by the library). The
//! panic unwinds out of `Subject::next` in the middle of its
//! `observers.iter_mut().for_each(..)` loop: the subscribers behind the dead
//! stream observer are skipped, at this emission and at every later one.
//! In the thread-safe form the panic happens while the subject's `observers`
//! mutex is held (src/subject.rs:164, src/rc.rs:97-103): the mutex is
//! poisoned and every later `next`, whatever the order of the subscribers,
//! panics in `lock().unwrap()` before anybody is served.
//!
//! No user callback panics here and nothing re-enters the pipeline; the panic
//! is raised by the library's own observer. (`to_future()` has the same flaw
//! for the completion: src/ops/future.rs:96-109.)
use rxrust::prelude::*;
use std::{
  cell::RefCell,
  convert::Infallible,
  panic::{catch_unwind, AssertUnwindSafe},
  rc::Rc,
  sync::{Arc, Mutex},
};

#[test]
fn share_subscriber_starves_after_a_stream_consumer_left() {
  let mut source = Subject::<i32, Infallible>::default();
  let shared = source.clone().share();

  // subscriber 1: the stream conversion
  let stream = shared.clone().to_stream();
  // subscriber 2: an ordinary subscriber
  let got = Rc::new(RefCell::new(vec![]));
  let g = got.clone();
  let _sub = shared.clone().subscribe(move |v| g.borrow_mut().push(v));

  source.next(1);
  assert_eq!(*got.borrow(), vec![1]);

  // subscriber 1 leaves
  drop(stream);

  // the source goes on emitting; subscriber 2 is present at both emissions
  let r2 = catch_unwind(AssertUnwindSafe(|| source.next(2)));
  let r3 = catch_unwind(AssertUnwindSafe(|| source.next(3)));

  assert_eq!(
    *got.borrow(),
    vec![1, 2, 3],
    "C11: the subscriber was present at the emissions of 2 and 3 but did not \
     receive them (emitting 2 panicked: {}, emitting 3 panicked: {})",
    r2.is_err(),
    r3.is_err()
  );
  assert!(r2.is_ok() && r3.is_ok(), "emitting into the source panicked");
}

#[test]
fn share_threads_is_dead_for_everybody_after_a_stream_consumer_left() {
  let mut source = SubjectThreads::<i32, Infallible>::default();
  let shared = source.clone().share_threads();

  // this time the ordinary subscriber joins FIRST, the stream second
  let got = Arc::new(Mutex::new(vec![]));
  let g = got.clone();
  let _sub = shared
    .clone()
    .subscribe(move |v| g.lock().unwrap().push(v));
  let stream = shared.clone().to_stream();

  source.next(1);
  assert_eq!(*got.lock().unwrap(), vec![1]);

  drop(stream);

  // 2 still reaches the ordinary subscriber (it is served first), then the
  // dead stream observer panics with the subject's mutex held
  let r2 = catch_unwind(AssertUnwindSafe(|| source.next(2)));
  // from here on the subject is poisoned
  let r3 = catch_unwind(AssertUnwindSafe(|| source.next(3)));
  let r4 = catch_unwind(AssertUnwindSafe(|| source.next(4)));

  assert_eq!(
    *got.lock().unwrap(),
    vec![1, 2, 3, 4],
    "C11: the subscriber was present at every emission (panicked while \
     emitting 2: {}, 3: {}, 4: {})",
    r2.is_err(),
    r3.is_err(),
    r4.is_err()
  );
}
