//! AUDIT A5 / finding 2 -- property C14
//! "Conversions and completion status report the real outcome and never hang"
//!
//! Violated clauses (C14 statement):
//!   "`complete_status` reports completed or error exactly when the source has
//!    terminated. Whenever the source has terminated, these futures, streams
//!    and `wait_for_end` become ready rather than staying pending forever"
//!
//! Input / run order: the source is a (hot) subject whose finite history
//! "0..k items then complete / error" has been delivered completely *before*
//! the conversion is created, i.e. before the first poll.  The most natural
//! public-API program that gets there is a `share()`d cold observable:
//!
//!     let shared = observable::of(1).share();
//!     shared.clone().subscribe(|_| {});        // connects, source completes
//!     shared.clone().to_future().await          // never resolves
//!
//! The source *has* terminated (`Subject::is_closed()` / `is_finished()` both
//! answer `true`), yet `to_future()` stays `Pending` for ever, `to_stream()`
//! never ends, `complete_status` keeps reporting "running" and
//! `CompleteStatus::wait_for_end` blocks for ever.
//!
//! Mechanism (src/subject.rs):
//!   * `complete` / `error` (subject.rs:171-187) `take()` only `observers`;
//!     the `chamber` (the staging vector for new subscribers) stays
//!     `Some(vec![])`.  Only `unsubscribe` (subject.rs:74-77) clears both.
//!   * `actual_subscribe` (subject.rs:230-238) looks only at the chamber:
//!     since it is still `Some`, the late observer is pushed into it and a live
//!     `Subscriber` is handed back.  Nothing will ever read that chamber
//!     again: `load` (subject.rs:129-133) is a no-op once `observers` is
//!     `None`, and `next`/`error`/`complete` do nothing either.  The observer
//!     is neither completed nor failed nor dropped.
//!   * Hence `ObservableFutureObserver` (src/ops/future.rs:84-110) never gets
//!     `complete`/`error`, its sender stays open and
//!     `ObservableFuture::poll` (future.rs:62-77) pends for ever; the same for
//!     `ObservableStream::poll_next` (src/ops/stream.rs:39-60); and
//!     `StatusObserver` (src/ops/complete_status.rs:65-75) never stores the
//!     flag, so `is_closed()` is false and `StatusFuture` (complete_status.rs:
//!     118-138) never becomes ready.
//!   `ShareOp` (src/ops/ref_count.rs:60-82) hands every later subscriber to
//!   that same, already terminated subject (`InnerShareOp::Connected`).
//!
//! The tests only demand *readiness* (any resolved value would do), which is
//! exactly what the clause states.

use futures::{executor::block_on, FutureExt, StreamExt};
use rxrust::ops::complete_status::CompleteStatus;
use rxrust::prelude::*;
use std::convert::Infallible;
use std::sync::mpsc;
use std::time::Duration;

/// true if `f` comes back within half a second
fn returns_in_time(f: impl FnOnce() + Send + 'static) -> bool {
  let (tx, rx) = mpsc::channel();
  std::thread::spawn(move || {
    f();
    let _ = tx.send(());
  });
  rx.recv_timeout(Duration::from_millis(500)).is_ok()
}

#[test]
fn control_terminal_after_subscription_is_reported() {
  // same harness, terminal delivered after the conversion was made: all fine
  let subject = SubjectThreads::<i32, Infallible>::default();
  let fut = subject.clone().to_future();
  let mut stream = subject.clone().to_stream();
  let (o, status) = subject.clone().complete_status();
  o.subscribe(|_| {});
  subject.clone().complete();
  assert!(fut.now_or_never().is_some());
  assert!(matches!(stream.next().now_or_never(), Some(None)));
  assert!(status.is_closed() && status.is_completed());
  assert!(returns_in_time(move || CompleteStatus::wait_for_end(status)));
}

#[test]
fn to_future_of_a_completed_subject_becomes_ready() {
  let subject = SubjectThreads::<i32, Infallible>::default();
  subject.clone().complete();
  assert!(subject.is_closed(), "the source has terminated");

  let fut = subject.clone().to_future();
  assert!(
    returns_in_time(move || {
      let _ = block_on(fut);
    }),
    "to_future() of a source that has completed stays pending for ever"
  );
}

#[test]
fn to_future_of_a_failed_subject_becomes_ready() {
  let subject = SubjectThreads::<i32, &'static str>::default();
  subject.clone().error("boom");
  assert!(subject.is_closed(), "the source has terminated");

  let fut = subject.clone().to_future();
  assert!(
    returns_in_time(move || {
      let _ = block_on(fut);
    }),
    "to_future() of a source that has failed stays pending for ever"
  );
}

#[test]
fn to_stream_of_a_completed_subject_ends() {
  let subject = SubjectThreads::<i32, Infallible>::default();
  subject.clone().complete();

  let mut stream = subject.clone().to_stream();
  assert!(
    returns_in_time(move || {
      block_on(async { while stream.next().await.is_some() {} });
    }),
    "to_stream() of a source that has completed never ends"
  );
}

#[test]
fn complete_status_of_a_completed_subject_is_closed() {
  let subject = SubjectThreads::<i32, Infallible>::default();
  subject.clone().complete();

  let (o, status) = subject.clone().complete_status();
  o.subscribe(|_| {});
  let closed = status.is_closed();
  let waited = returns_in_time(move || CompleteStatus::wait_for_end(status));
  assert!(
    closed && waited,
    "complete_status of a source that has completed: is_closed() = {closed}, \
     wait_for_end returned = {waited}"
  );
}

#[test]
fn shared_cold_source_second_conversion_becomes_ready() {
  // the everyday form: no subject in user code at all
  let shared = observable::of(1).share_threads();
  // first subscriber connects; `of(1)` emits 1 and completes right away
  let got = std::sync::Arc::new(std::sync::Mutex::new(None));
  let g = got.clone();
  shared.clone().subscribe(move |v| *g.lock().unwrap() = Some(v));
  assert_eq!(*got.lock().unwrap(), Some(1));

  let fut = shared.clone().to_future();
  assert!(
    returns_in_time(move || {
      let _ = block_on(fut);
    }),
    "of(1).share().to_future() after the shared source has completed stays \
     pending for ever"
  );
}
