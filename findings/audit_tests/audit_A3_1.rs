// AUDIT A3 / finding 1 -- property C11
//
// Violated clause (C11): "`share()` subscribes to the source exactly once
// however many subscribers join, every subscriber present at an emission
// receives it", quantified over "all histories of subscribe/unsubscribe by up
// to three subscribers interleaved with source events, for cold synchronous
// and hot sources".
//
// For a *cold synchronous* source the only way a second subscriber can join
// "interleaved with source events" is from inside a callback, because the
// whole source runs inside the first `subscribe` call. That history does not
// multicast, it panics:
//
//   src/ops/ref_count.rs:61   `let mut inner = self.0.rc_deref_mut();`
//       takes the `RefCell` borrow of the shared `InnerShareOp` and keeps it
//       in the local `inner` until `actual_subscribe` returns;
//   src/ops/ref_count.rs:71   `connectable.connect()` is called while that
//       borrow is still alive; for a cold synchronous source `connect`
//       (src/observable/connectable_observable.rs:45) runs the entire source,
//       i.e. every subscriber callback, under the borrow;
//   src/ops/ref_count.rs:61   a subscriber that joins the same shared
//       observable from inside such a callback re-executes this line and
//       `RefCell::borrow_mut` panics ("already borrowed").
//
// The state has already been swapped to `Connected` at line 68, so nothing
// needs the borrow during `connect()`; the same join against a *hot* source
// (second half of this file, passes) works and shows the expected multicast
// behaviour: the late joiner misses the in-flight item and sees all later
// ones, and the source is subscribed once.
//
// Local (`Rc<RefCell>`) form only; the `_threads` form self-deadlocks at the
// same place but that is on the "already known" list.

use rxrust::prelude::*;
use std::{cell::RefCell, rc::Rc};

#[test]
fn share_cold_sync_source_second_subscriber_joins_during_emission() {
  let source_subscriptions = Rc::new(RefCell::new(0));
  let first = Rc::new(RefCell::new(Vec::new()));
  let second = Rc::new(RefCell::new(Vec::new()));

  let c_subs = source_subscriptions.clone();
  let shared = observable::defer(move || {
    *c_subs.borrow_mut() += 1;
    observable::from_iter(1..=3)
  })
  .share();

  let joiner = shared.clone();
  let c_first = first.clone();
  let c_second = second.clone();
  shared.clone().subscribe(move |v: i32| {
    c_first.borrow_mut().push(v);
    if v == 1 {
      // second subscriber joins while item 1 is in flight
      let c_second = c_second.clone();
      joiner.clone().subscribe(move |v: i32| c_second.borrow_mut().push(v));
    }
  });

  assert_eq!(*source_subscriptions.borrow(), 1, "source subscribed once");
  assert_eq!(*first.borrow(), vec![1, 2, 3]);
  // present at the emissions of 2 and 3, not at the one of 1
  assert_eq!(*second.borrow(), vec![2, 3]);
}

// Control: the very same history over a hot source behaves as C11 demands.
#[test]
fn control_share_hot_source_second_subscriber_joins_during_emission() {
  let first = Rc::new(RefCell::new(Vec::new()));
  let second = Rc::new(RefCell::new(Vec::new()));

  let mut hot = Subject::<i32, std::convert::Infallible>::default();
  let shared = hot.clone().share();

  let joiner = shared.clone();
  let c_first = first.clone();
  let c_second = second.clone();
  shared.clone().subscribe(move |v: i32| {
    c_first.borrow_mut().push(v);
    if v == 1 {
      let c_second = c_second.clone();
      joiner.clone().subscribe(move |v: i32| c_second.borrow_mut().push(v));
    }
  });
  hot.next(1);
  hot.next(2);
  hot.next(3);

  assert_eq!(*first.borrow(), vec![1, 2, 3]);
  assert_eq!(*second.borrow(), vec![2, 3]);
}
