//! AUDIT B3 / finding 1 -- property C04 (local form of `take_until`)
//!
//! Violated clause (C04):
//!   "For every interleaving of the notifications of their inputs, merge,
//!    zip, combine_latest, with_latest_from, take_until, skip_until, sample
//!    and buffer(notifier) deliver exactly what their definition prescribes
//!    for that interleaving: [...] take_until and skip_until switch exactly at
//!    the notifier's first item"
//!
//! History exercised (two hot inputs, local `Subject`s, one thread):
//!     source: 1
//!     source: 2      -- and *while 2 is being delivered* the notifier's first
//!     notifier: ()      item arrives (the consumer of the output says "stop")
//!     source: 3
//! Prescribed output: 1, 2, complete (and nothing after).
//! Observed: `source.next(2)` panics with `already borrowed: BorrowMutError`;
//! the output never completes.
//!
//! Mechanism:
//!  * `TakeUntilOp::actual_subscribe` puts the downstream observer in one
//!    shared cell `MutRc<Option<O>>` (src/ops/take_until.rs:48) that is handed
//!    to the source (line 50) and to the notifier observer (lines 51-55).
//!  * A source item is forwarded by `impl Observer for MutRc<Option<O>>`,
//!    src/observer.rs:114-118: `if let Some(o) = &mut *self.rc_deref_mut()
//!    { o.next(value) }` -- the `RefMut` of the cell is alive for the whole
//!    downstream `next`.
//!  * The notifier's item is handled by `TakeUntilNotifierObserver::next`
//!    (src/ops/take_until.rs:85-87): `self.main_observer.clone().complete()`,
//!    i.e. src/observer.rs:126-130 `self.rc_deref_mut().take()` -- a second
//!    `borrow_mut` of the very same cell => panic.
//!  So the switch point "notifier fires during the delivery of a source item"
//!  is not handled at all, although
//!    - the sibling operator `skip_until` never touches the observer cell
//!      when its notifier fires (its gate is a separate `Cell<bool>`,
//!      src/ops/skip_until.rs:83,137-139,174-180), so a notifier item arriving
//!      during a delivery is harmless there;
//!    - `take_until` itself handles the notifier firing during the delivery
//!      of a source item when that happens one step *upstream* of its cell
//!      (a `tap` in front of it, the pattern of the crate's own skip_until
//!      doc-test): see the passing control
//!      `take_until_switches_when_notifier_fires_from_upstream_tap`;
//!    - the two inputs are two *different* subjects, so no subject is
//!      re-entered (a `Subject` cannot be `next`ed from inside its own
//!      `next`; that is not what happens here).
//!
//! NOTE for triage: the notifier item is produced by the subscriber's own
//! callback, i.e. this is re-entrancy into the operator in the *local* form
//! (the `_threads` analogue, a self-deadlock on the `Mutex`, is on the
//! already-known list and is deliberately not tested here).

use rxrust::prelude::*;
use std::{
  cell::RefCell,
  panic::{catch_unwind, AssertUnwindSafe},
  rc::Rc,
};

type Log = Rc<RefCell<Vec<String>>>;

#[test]
fn take_until_switches_when_notifier_fires_during_delivery() {
  let log: Log = Rc::default();
  let mut source = Subject::<i32, ()>::default();
  let notifier = Subject::<(), ()>::default();

  let (l_next, l_complete) = (log.clone(), log.clone());
  let mut stop = notifier.clone();
  source
    .clone()
    .take_until::<_, (), ()>(notifier.clone())
    .on_complete(move || l_complete.borrow_mut().push("complete".into()))
    .on_error(|_: ()| {})
    .subscribe(move |v| {
      l_next.borrow_mut().push(v.to_string());
      if v == 2 {
        // the consumer has seen enough: first (and only) notifier item
        stop.next(());
      }
    });

  let run = catch_unwind(AssertUnwindSafe(|| {
    source.next(1);
    source.next(2);
    source.next(3);
  }));

  let got = log.borrow().clone();
  assert!(
    run.is_ok(),
    "take_until panicked while the notifier's first item arrived during the \
     delivery of a source item; output so far: {:?}",
    got
  );
  assert_eq!(got, ["1", "2", "complete"]);
}

/// control: `take_until` with the notifier fired during the delivery of the
/// same source item, but from a `tap` upstream of the operator's cell.
#[test]
fn take_until_switches_when_notifier_fires_from_upstream_tap() {
  let log: Log = Rc::default();
  let mut source = Subject::<i32, ()>::default();
  let notifier = Subject::<(), ()>::default();

  let (l_next, l_complete) = (log.clone(), log.clone());
  let mut stop = notifier.clone();
  source
    .clone()
    .tap(move |v| {
      if *v == 3 {
        stop.next(());
      }
    })
    .take_until::<_, (), ()>(notifier.clone())
    .on_complete(move || l_complete.borrow_mut().push("complete".into()))
    .on_error(|_: ()| {})
    .subscribe(move |v| l_next.borrow_mut().push(v.to_string()));

  source.next(1);
  source.next(2);
  source.next(3);
  source.next(4);
  assert_eq!(*log.borrow(), ["1", "2", "complete"]);
}
