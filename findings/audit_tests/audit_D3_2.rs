//! AUDIT D3 / finding 2 -- property C04 (multi-input combinators follow the
//! interleaving of their inputs), local `take_until` (and, same mechanism,
//! local `sample`).
//!
//! Violated clause (C04): "For every interleaving of the notifications of
//! their inputs, (...) take_until and skip_until switch exactly at the
//! notifier's first item".
//!
//! Interleaving: main items 1, 2, then the notifier's first item, where the
//! notifier's item is produced by the subscriber itself while it handles main
//! item 2 (the classic "stop the stream when I have seen X" idiom:
//! `source.take_until(stop)` + `stop.next(())` from the callback). The two
//! inputs are two different subjects; neither of them is re-entered.
//!
//! Expected by C04: output `1, 2`, then completion at the notifier's first
//! item; main item 3 is not forwarded.
//! Observed: `stop.next(())` panics inside the library with "RefCell already
//! borrowed"; the switch does not happen.
//!
//! Mechanism: the main input delivers through `Observer::next` of
//! `MutRc<Option<O>>` (src/observer.rs:114-118), which keeps the shared cell
//! mutably borrowed during the downstream call; the notifier side
//! (`TakeUntilNotifierObserver::next`, src/ops/take_until.rs:85-87) calls
//! `self.main_observer.clone().complete()` -> `self.rc_deref_mut().take()`
//! (src/observer.rs:126-130, src/rc.rs:87-89) on that very cell ->
//! `BorrowMutError`.
//!
//! That nested arrivals from the *other* input are meant to work in the local
//! forms is visible in the sibling operator: `with_latest_from` deliberately
//! ends its borrow of the shared value cell before calling downstream
//! ("should not write in one line early end value borrow",
//! src/ops/with_latest_from.rs:120-125) and `skip_until` opens its gate through
//! a `Cell` (src/ops/skip_until.rs:137-139, 174-180); the control tests below
//! pass for both. `take_until` (and `sample`, which keeps the value cell
//! borrowed in `if let Some(item) = self.value.rc_deref_mut().take() {
//! self.observer.next(item) }`, src/ops/sample.rs:118-122) do not.

use rxrust::prelude::*;
use std::{
  cell::RefCell,
  panic::{catch_unwind, AssertUnwindSafe},
  rc::Rc,
};

type Log = Rc<RefCell<Vec<String>>>;

#[test]
fn take_until_notifier_fired_by_the_subscriber_while_it_handles_an_item() {
  let log: Log = Rc::new(RefCell::new(vec![]));
  let mut source = Subject::<i32, ()>::default();
  let stop = Subject::<(), ()>::default();

  let mut fire = stop.clone();
  let (l_next, l_done) = (log.clone(), log.clone());
  source
    .clone()
    .take_until(stop.clone())
    .on_complete(move || l_done.borrow_mut().push("C".into()))
    .on_error(|_| {})
    .subscribe(move |v| {
      l_next.borrow_mut().push(v.to_string());
      if v == 2 {
        // the notifier's first item
        fire.next(());
      }
    });

  source.next(1);
  let second = catch_unwind(AssertUnwindSafe(|| source.next(2)));
  let third = catch_unwind(AssertUnwindSafe(|| source.next(3)));

  let out = log.borrow().clone();
  assert!(
    second.is_ok() && third.is_ok(),
    "the library panicked while the notifier's first item arrived \
     (output so far: {out:?})"
  );
  assert_eq!(out, vec!["1", "2", "C"]);
}

/// Control: `skip_until` accepts a notifier item that the subscriber produces
/// while it handles a forwarded main item.
#[test]
fn control_skip_until_notifier_fired_while_a_main_item_is_in_flight() {
  let log: Log = Rc::new(RefCell::new(vec![]));
  let mut source = Subject::<i32, ()>::default();
  let open = Subject::<(), ()>::default();

  let mut fire = open.clone();
  let l_next = log.clone();
  source
    .clone()
    .skip_until(open.clone())
    .on_error(|_| {})
    .subscribe(move |v| {
      l_next.borrow_mut().push(v.to_string());
      // a second notifier item while a forwarded main item is being handled
      fire.next(());
    });

  let mut first_fire = open.clone();
  source.next(1); // discarded
  first_fire.next(()); // gate opens
  source.next(2); // forwarded; the callback fires the notifier again
  source.next(3);

  assert_eq!(*log.borrow(), vec!["2", "3"]);
}

/// Control: `with_latest_from` accepts an item of its secondary input while a
/// combined item is being handled.
#[test]
fn control_with_latest_from_secondary_item_while_a_pair_is_handled() {
  let log: Log = Rc::new(RefCell::new(vec![]));
  let mut main = Subject::<i32, ()>::default();
  let mut other = Subject::<i32, ()>::default();

  let mut feed = other.clone();
  let l_next = log.clone();
  main
    .clone()
    .with_latest_from(other.clone())
    .on_error(|_| {})
    .subscribe(move |(a, b): (i32, i32)| {
      l_next.borrow_mut().push(format!("{a}/{b}"));
      feed.next(b + 10);
    });

  other.next(1);
  main.next(1);
  main.next(2);

  assert_eq!(*log.borrow(), vec!["1/1", "2/11"]);
}
