//! AUDIT D1, finding 1 -- property C16
//!
//! Violated clause (C16): "When an operator ends the stream early (take,
//! first, element_at, take_while, contains, all, take_until) every producer
//! feeding that subscriber stops working on its behalf: periodic and
//! asynchronous sources retire their task within one period, so that running a
//! local scheduler until idle terminates, and iterator sources stop pulling
//! further items. This holds through any chain of intermediate operators".
//!
//! The intermediate operator that breaks the chain is `share()` (and
//! `publish()`/`connect()` alike).
//!
//! Mechanism. The "downstream has ended" signal travels upstream through
//! `Observer::is_finished` (src/observer.rs:13-21); producers poll it before
//! each emission (src/observable/from_iter.rs:51-58,
//! src/observable/interval.rs:57-67). `share()` connects its source to a
//! `Subject` used as the source's observer (src/ops/ref_count.rs:64-82,
//! src/observable/connectable_observable.rs:39-46), and a subject answers
//!
//!   fn is_finished(&self) -> bool { self.observers.rc_deref().is_none() }
//!                                              (src/subject.rs:190-192)
//!
//! i.e. "have I been terminated myself", never "has every one of my
//! subscribers finished". So when the only subscriber of the shared observable
//! is ended by `take(n)`, the `TakeObserver` drops its downstream and reports
//! finished (src/ops/take.rs:47-57,73-75), but the subject in between keeps
//! answering `false`: a periodic source goes on ticking for nobody for ever
//! (`LocalPool::run()` never returns) and an iterator source is drained to the
//! end, all of it inside the one `subscribe` call, so that no later subscriber
//! could even profit from the items.
//!
//! This is not the unsubscription path of share (`RefCountSubscription`,
//! src/ops/ref_count.rs:136-141): nobody unsubscribes here, the subscriber is
//! finished by an early-terminating operator, which in this library is
//! signalled upstream by `is_finished` alone.
use rxrust::prelude::*;
use std::{
  cell::{Cell, RefCell},
  rc::Rc,
  sync::mpsc,
  time::Duration,
};

/// An iterator that counts how many items were pulled out of it.
fn counting(n: usize, pulls: Rc<Cell<usize>>) -> impl Iterator<Item = usize> {
  (0..n).map(move |v| {
    pulls.set(pulls.get() + 1);
    v
  })
}

/// Control: without `share()` the iterator source stops as soon as `take(2)`
/// has ended the stream. Passes on the current code; it shows that the bound
/// asserted below asks for nothing the library does not already do.
#[test]
fn control_from_iter_take_stops_pulling() {
  let pulls = Rc::new(Cell::new(0));
  let got = Rc::new(RefCell::new(vec![]));
  let g = got.clone();
  observable::from_iter(counting(1000, pulls.clone()))
    .take(2)
    .subscribe(move |v| g.borrow_mut().push(v));
  assert_eq!(*got.borrow(), vec![0, 1]);
  assert!(pulls.get() <= 3, "pulled {} items", pulls.get());
}

/// `from_iter(..).share().take(2)`: the subscriber is complete after two
/// items, the iterator is nevertheless pulled to its end.
#[test]
fn share_between_iterator_source_and_take_keeps_pulling() {
  let pulls = Rc::new(Cell::new(0));
  let got = Rc::new(RefCell::new(vec![]));
  let completed = Rc::new(Cell::new(false));
  let g = got.clone();
  let c = completed.clone();
  observable::from_iter(counting(1000, pulls.clone()))
    .share()
    .take(2)
    .on_complete(move || c.set(true))
    .subscribe(move |v| g.borrow_mut().push(v));

  // the early-terminating operator did end the stream ...
  assert_eq!(*got.borrow(), vec![0, 1]);
  assert!(completed.get());
  // ... so the iterator source must have stopped pulling on its behalf
  assert!(
    pulls.get() <= 3,
    "C16: the stream ended after 2 items, but the iterator source behind \
     share() was pulled {} times",
    pulls.get()
  );
}

/// `interval(..).share().take(3)` on a `LocalPool`: after the third tick
/// nobody listens any more, the interval task must retire within one period
/// and `run()` must return.
#[test]
fn share_between_interval_and_take_never_retires_the_interval() {
  let (tx, rx) = mpsc::channel();
  std::thread::spawn(move || {
    let mut pool = futures::executor::LocalPool::new();
    let got = Rc::new(RefCell::new(vec![]));
    let g = got.clone();
    observable::interval(Duration::from_millis(5), pool.spawner())
      .share()
      .take(3)
      .subscribe(move |v| g.borrow_mut().push(v));
    pool.run();
    let _ = tx.send(got.borrow().clone());
  });
  // 3 ticks of 5ms, then at most one more period; 3s is a very wide margin
  match rx.recv_timeout(Duration::from_secs(3)) {
    Ok(got) => assert_eq!(got, vec![0, 1, 2]),
    Err(_) => panic!(
      "C16: interval(5ms).share().take(3): LocalPool::run() had not returned \
       after 3s -- the interval task behind share() never retires"
    ),
  }
}

/// Control for the timing test: the same pipeline without `share()` returns
/// from `run()` at once. Passes on the current code.
#[test]
fn control_interval_take_retires() {
  let (tx, rx) = mpsc::channel();
  std::thread::spawn(move || {
    let mut pool = futures::executor::LocalPool::new();
    observable::interval(Duration::from_millis(5), pool.spawner())
      .take(3)
      .subscribe(|_| {});
    pool.run();
    let _ = tx.send(());
  });
  assert!(rx.recv_timeout(Duration::from_secs(3)).is_ok());
}
