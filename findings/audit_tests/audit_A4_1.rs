//! AUDIT A4 / finding 1 - property C07
//!
//! Violated clause (C07): "observe_on, delay, delay_subscription and
//! subscribe_on (and their _threads and _at forms) deliver the source's items
//! in the source's order - all of them when the source completes [...] -
//! followed by the source's terminal [...]. This holds for every scheduler
//! the library accepts, whatever order that scheduler runs its ready tasks
//! in." The quantifier names the "single FIFO queue (local pool)" explicitly.
//!
//! This is NOT the known multi-worker problem: the scheduler here is
//! `futures::executor::LocalPool`, one thread, strictly FIFO.
//!
//! Mechanism
//!  * `delay` wraps every item (and the completion) in its own one-shot task
//!    with its own, independent timer: src/ops/delay.rs:89-101 (items),
//!    src/ops/delay.rs:109-124 (complete). Nothing re-sequences these tasks.
//!  * The timer of such a task is created *inside* the spawned future, at the
//!    task's first poll, and awaited at once: src/scheduler.rs:311-316
//!    (`if let Some(dur) = delay { new_timer(dur).await; } task.await`),
//!    `new_timer` = `futures_time::task::sleep` = `async_io::Timer::after`
//!    (src/scheduler.rs:23-30).
//!  * An `async_io::Timer` that finds its deadline already passed when it is
//!    polled completes on the spot; otherwise it registers with the reactor
//!    and the task is woken later from the reactor's helper thread (many
//!    microseconds later).
//!  * With a delay in the order of the few hundred nanoseconds that pass
//!    between creating the timer and polling it, some item tasks complete at
//!    their first poll and deliver at once, while the tasks of EARLIER items
//!    sit registered in the reactor: later items overtake earlier ones. When
//!    the completion task is one of the immediate ones, `complete` overtakes
//!    pending items, which are then dropped (the observer cell is empty by
//!    the time their tasks run).
//!
//! The effect depends on the machine's speed, so the test sweeps the delay
//! geometrically from 20ns to ~20us; every single run is required to satisfy
//! the property (all items, in order). On the audit machine: 100% of the
//! runs at 200ns fail, ~65% at 1us, still a few percent at 10us.

use futures::executor::LocalPool;
use rxrust::prelude::*;
use std::{cell::RefCell, rc::Rc, time::Duration};

const N: i32 = 200;

fn run_once(delay: Duration) -> (Vec<i32>, bool) {
  let mut pool = LocalPool::new();
  let out = Rc::new(RefCell::new(vec![]));
  let completed = Rc::new(RefCell::new(false));
  let (o, c) = (out.clone(), completed.clone());
  observable::from_iter(0..N)
    .delay(delay, pool.spawner())
    .on_complete(move || *c.borrow_mut() = true)
    .subscribe(move |v| o.borrow_mut().push(v));
  pool.run();
  let got = out.borrow().clone();
  let done = *completed.borrow();
  (got, done)
}

#[test]
fn delay_on_a_local_pool_keeps_the_source_order() {
  let want: Vec<i32> = (0..N).collect();
  let mut failures = vec![];
  let mut runs = 0;

  let mut ns = 20.0_f64;
  while ns < 20_000.0 {
    let delay = Duration::from_nanos(ns as u64);
    for _ in 0..10 {
      runs += 1;
      let (got, completed) = run_once(delay);
      assert!(completed, "the source completed, so must the delayed one");
      if got != want {
        failures.push((delay, got));
      }
    }
    ns *= 1.25;
  }

  if let Some((delay, got)) = failures.first() {
    let first_bad = got
      .iter()
      .zip(want.iter())
      .position(|(a, b)| a != b)
      .unwrap_or(got.len());
    panic!(
      "{} of {} runs broke C07 on a LocalPool. First: delay {:?} delivered {} \
       of {} items, first deviation at index {}: got {:?}...",
      failures.len(),
      runs,
      delay,
      got.len(),
      N,
      first_bad,
      &got[first_bad.saturating_sub(2)..(first_bad + 8).min(got.len())]
    );
  }
}
