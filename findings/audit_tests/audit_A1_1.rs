//! AUDIT A1 / finding 1 -- property C17, clause:
//!
//!   "If `is_closed()` on a subscription returns true, no further
//!    notification is ever delivered through that subscription, and once it
//!    has returned true it never again returns false"
//!
//! quantified (among others) over "all short histories of
//! append/unsubscribe/is_closed on composite subscriptions".
//!
//! Violating history (public API only, single-threaded, deterministic):
//!
//!     let mut m = MultiSubscription::default();
//!     m.is_closed()            // -> true
//!     m.append(<live subscription to a Subject>)
//!     m.is_closed()            // -> false   (true -> false)
//!     subject.next(1)          // delivered to a member of `m`, although
//!                              //   `m` had already answered "closed"
//!
//! Mechanism:
//!  * src/subscription.rs:92-97  `MultiSubscription::is_closed` is
//!    `vec.iter().all(part closed)`; for a composite that has never been
//!    unsubscribed and has no (or only terminated) parts this is *vacuously
//!    true*, i.e. "fresh/open and empty" is not distinguished from "closed"
//!    (`None`, line 93 `map_or(true, ..)`).
//!  * src/subscription.rs:104-108 `append` on such a composite just pushes the
//!    new part (the composite is still `Some(vec)`), it does not tear it down -
//!    correctly so, because the composite was never unsubscribed. From then on
//!    `is_closed()` answers false again and the part delivers.
//!
//! The same holds for `MultiSubscriptionThreads` (same macro) and for the
//! history "append(X); X terminates; is_closed()==true; append(Y);
//! is_closed()==false" (second test).
//!
//! Note: this is reachable through the composite's own public API
//! (`MultiSubscription::{default, append, is_closed}`), which is what the
//! quantifier names; I found no operator pipeline whose *returned*
//! subscription shows it (merge_all / delay / observe_on only append while
//! another part of the same composite is still open).

use rxrust::prelude::*;
use std::cell::RefCell;
use std::rc::Rc;

#[test]
fn empty_composite_says_closed_then_open_again_and_delivers() {
  let mut subject = Subject::<i32, ()>::default();
  let got = Rc::new(RefCell::new(Vec::new()));

  let mut m = MultiSubscription::default();
  let closed_before = m.is_closed();

  let got_c = got.clone();
  let part = subject
    .clone()
    .on_error(|_: ()| {})
    .subscribe(move |v| got_c.borrow_mut().push(v));
  m.append(BoxSubscription::new(part));
  let closed_after = m.is_closed();

  subject.next(1);
  let delivered_after_closed_answer = closed_before && !got.borrow().is_empty();

  assert!(
    !(closed_before && !closed_after),
    "C17: is_closed() returned true (fresh composite) and later false \
     (after append): before={closed_before} after={closed_after}"
  );
  assert!(
    !delivered_after_closed_answer,
    "C17: composite answered is_closed()==true, yet a notification was \
     delivered through one of its parts afterwards: {:?}",
    got.borrow()
  );
}

#[test]
fn all_parts_terminated_says_closed_then_open_again() {
  let x = Subject::<i32, ()>::default();
  let y = Subject::<i32, ()>::default();

  let mut m = MultiSubscriptionThreads::default();
  let mut mt = MultiSubscription::default();
  // local composite
  mt.append(BoxSubscription::new(
    x.clone().on_error(|_: ()| {}).subscribe(|_| {}),
  ));
  assert!(!mt.is_closed());
  x.clone().complete();
  let closed_mid = mt.is_closed(); // true: its only part has terminated
  mt.append(BoxSubscription::new(
    y.clone().on_error(|_: ()| {}).subscribe(|_| {}),
  ));
  let closed_end = mt.is_closed(); // false again

  // thread-safe composite, same history with an empty start
  let before_threads = m.is_closed();
  let z = SubjectThreads::<i32, ()>::default();
  m.append(BoxSubscriptionThreads::new(
    z.clone().on_error(|_: ()| {}).subscribe(|_| {}),
  ));
  let after_threads = m.is_closed();

  assert!(
    !(closed_mid && !closed_end),
    "C17 (local): true -> false: mid={closed_mid} end={closed_end}"
  );
  assert!(
    !(before_threads && !after_threads),
    "C17 (threads): true -> false: before={before_threads} after={after_threads}"
  );
}
