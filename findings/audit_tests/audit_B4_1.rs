//! AUDIT B4 / finding 1 - property C19 (and the liveness clause of C16)
//!
//! C19: "After `unsubscribe()` on its handle has returned the task body
//!       neither starts nor is still running, and a handle reports closed only
//!       when its task can no longer act."
//!      quantified over "every point at which each handle is cancelled".
//! C16: "... periodic and asynchronous sources retire their task within one
//!       period, so that running a local scheduler until idle terminates".
//!
//! The one cancellation point the scheduler does not survive is "while the
//! task body is running". On a single-threaded `LocalPool` that point is
//! reached in exactly one way: the body (i.e. the subscriber's `next`
//! callback, which *is* the body of an interval / timer / delay task) cancels
//! its own subscription - the canonical Rx idiom "unsubscribe from inside the
//! callback once I have seen enough".
//!
//! Mechanism
//!  * `Remote::poll` (src/scheduler.rs:263-274) takes the handle's cell
//!      `let mut info = this.handle_info.rc_deref_mut();`        (line 266)
//!    and keeps that guard alive across
//!      `info.value = Some(ready!(this.future.poll(cx)));`       (line 271)
//!    i.e. for the whole run of the task body.
//!  * `TaskHandle` is *always* a `MutArc` = `Arc<std::sync::Mutex<_>>`
//!    (src/scheduler.rs:44, src/rc.rs:32), also for the local (`LocalPool`,
//!    `MutRc`) forms of the operators.
//!  * `TaskHandle::unsubscribe` (src/scheduler.rs:208-212 / 223-231) and
//!    `TaskHandle::is_closed` (215-217 / 234-240) lock the very same mutex.
//!  So a handle operation issued from inside the task body re-locks a
//!  non-reentrant mutex on the same thread: `unsubscribe()` never returns,
//!  `is_closed()` never answers, and `LocalPool::run()` never becomes idle.
//!  No second thread, no `_threads` operator and no panic is involved.
//!
//! Each scenario runs on a helper thread; the test fails if the helper has
//! not finished after 5 s (the scenarios need ~5 ms) or if it panicked
//! (std documents a same-thread re-lock as "deadlock or panic").

use rxrust::prelude::*;
use std::{
  cell::{Cell, RefCell},
  rc::Rc,
  sync::mpsc,
  thread,
  time::Duration,
};

use futures::executor::LocalPool;

/// Run `f` on its own thread and wait at most 5 s for its result.
fn finishes<R: Send + 'static>(
  f: impl FnOnce() -> R + Send + 'static,
) -> Result<R, &'static str> {
  let (tx, rx) = mpsc::channel();
  thread::spawn(move || {
    let r = f();
    let _ = tx.send(r);
  });
  match rx.recv_timeout(Duration::from_secs(5)) {
    Ok(r) => Ok(r),
    Err(mpsc::RecvTimeoutError::Timeout) => Err("still blocked after 5 s"),
    Err(mpsc::RecvTimeoutError::Disconnected) => Err("scenario panicked"),
  }
}

/// interval(1ms) on a LocalPool; the subscriber unsubscribes itself when it
/// sees tick #2. Expected: `unsubscribe()` returns, no further tick is
/// delivered, `run()` goes idle with exactly 3 ticks seen.
#[test]
fn interval_subscriber_unsubscribes_itself_on_local_pool() {
  let outcome = finishes(|| {
    let mut pool = LocalPool::new();
    let seen = Rc::new(Cell::new(0usize));
    let slot: Rc<RefCell<Option<BoxSubscription<'static>>>> =
      Rc::new(RefCell::new(None));

    let c_seen = seen.clone();
    let c_slot = slot.clone();
    let sub = observable::interval(Duration::from_millis(1), pool.spawner())
      .subscribe(move |v| {
        c_seen.set(c_seen.get() + 1);
        if v == 2 {
          let me = c_slot.borrow_mut().take();
          if let Some(me) = me {
            // the task body cancels its own handle
            me.unsubscribe();
          }
        }
      });
    *slot.borrow_mut() = Some(BoxSubscription::new(sub));

    pool.run();
    seen.get()
  });

  assert_eq!(
    outcome,
    Ok(3),
    "C19/C16: cancelling an interval from inside its own callback on a \
     LocalPool must return and let run() go idle"
  );
}

/// The same through an operator's composite subscription: `delay` puts the
/// handle of every delayed emission into the subscription it returns; the
/// subscriber, running inside such a delayed task, only *asks* whether its
/// subscription is closed.
#[test]
fn delayed_subscriber_asks_is_closed_on_local_pool() {
  let outcome = finishes(|| {
    let mut pool = LocalPool::new();
    let slot: Rc<RefCell<Option<BoxSubscription<'static>>>> =
      Rc::new(RefCell::new(None));
    let answers = Rc::new(RefCell::new(Vec::new()));

    let c_slot = slot.clone();
    let c_answers = answers.clone();
    // `of` has delivered and completed by the time `subscribe` returns, so
    // the source half of delay's subscription is closed and the answer
    // depends on the handles of the two delayed tasks (item, completion).
    let sub = observable::of(7)
      .delay(Duration::from_millis(1), pool.spawner())
      .subscribe(move |v| {
        let closed = c_slot.borrow().as_ref().map(|s| s.is_closed());
        c_answers.borrow_mut().push((v, closed));
      });
    *slot.borrow_mut() = Some(BoxSubscription::new(sub));

    pool.run();
    let got = answers.borrow().clone();
    got
  });

  // the subscriber is being served right now and the delayed completion is
  // still to come: the only acceptable answer is "not closed".
  assert_eq!(
    outcome,
    Ok(vec![(7, Some(false))]),
    "C19: is_closed() asked from inside the delayed task must answer"
  );
}

/// A one-shot `timer`: its subscriber unsubscribes itself while the timer task
/// delivers the item (e.g. a generic "take one and leave" helper).
#[test]
fn timer_subscriber_unsubscribes_itself_on_local_pool() {
  let outcome = finishes(|| {
    let mut pool = LocalPool::new();
    let slot: Rc<RefCell<Option<BoxSubscription<'static>>>> =
      Rc::new(RefCell::new(None));
    let seen = Rc::new(Cell::new(0usize));

    let c_slot = slot.clone();
    let c_seen = seen.clone();
    let sub =
      observable::timer(1, Duration::from_millis(1), pool.spawner())
        .subscribe(move |_| {
          c_seen.set(c_seen.get() + 1);
          let me = c_slot.borrow_mut().take();
          if let Some(me) = me {
            me.unsubscribe();
          }
        });
    *slot.borrow_mut() = Some(BoxSubscription::new(sub));

    pool.run();
    seen.get()
  });

  assert_eq!(outcome, Ok(1));
}
