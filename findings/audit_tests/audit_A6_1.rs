//! Audit A6, finding 1 (property C10).
//!
//! Violated clause (C10): "When several threads concurrently emit into,
//! subscribe to, complete or unsubscribe from a thread-safe subject or a
//! pipeline built from _threads operators ... every call returns: no deadlock,
//! no lost wakeup, no panic. This is claimed for callers that do not re-enter
//! the same pipeline from inside a callback."
//! and the mechanism it rests on: "locks are taken upstream-to-downstream,
//! never in the reverse direction on the delivery path".
//!
//! What happens: a `SubjectThreads::next` (test 1) resp. the pool worker that
//! delivers a `delay_threads` completion (test 2) blocks forever, together
//! with a second thread that merely asks the subscription returned by
//! `flat_map_threads` / `concat_map_threads` whether it `is_closed()`.
//! No callback touches the pipeline (the only callback used to widen the
//! window just sleeps).
//!
//! NOTE on scope: the second thread calls `Subscription::is_closed()`, a
//! read-only query of the public subscription API; the quantifier of C10 spells
//! out next/complete/error/subscribe/unsubscribe only. The call that never
//! returns on the first thread is a plain `next` (test 1) / a scheduled
//! delivery (test 2).
//!
//! Mechanism: the delivery path of merge_all_threads takes a lock in the
//! reverse (downstream-to-upstream) direction, and `is_closed` takes the same
//! two locks in the other order.
//!
//!  * delivery path: `OutsideObserverThreads::next` (src/ops/merge_all.rs:202-211)
//!    and the queued-subscribe closure run from `InnerObserverThreads::complete`
//!    (src/ops/merge_all.rs:167-171, 215-218) end with
//!    `self.subscription.append(..)`, which locks the operator's own
//!    `MultiSubscriptionThreads` ML (src/subscription.rs:105-106). ML guards the
//!    *upstream* subscriptions of this very operator. At that moment the
//!    delivering thread still holds every lock it collected on its way down:
//!      - test 1: the `SubscriberThreads` cell U of the outer subject's
//!        subscriber, held by `MutArc<Option<O>>::next` for the whole `p_next`
//!        (src/observer.rs:114-118, src/subscriber.rs:84-86), under
//!        `SubjectThreads::next` (src/subject.rs:162-168);
//!      - test 2: the task handle mutex H, held by `Remote::poll` for the whole
//!        run of the task (src/scheduler.rs:266-271).
//!    Order:  U -> ML   resp.   H -> ML.
//!  * `MultiSubscriptionThreads::is_closed` (src/subscription.rs:93-98) keeps ML
//!    locked while it asks every member `is_closed()`:
//!      - test 1: member 0 is the outer `SubscriberThreads`, whose `is_closed`
//!        locks U (src/subscriber.rs:74-76);
//!      - test 2: the first inner observable's `delay_threads` subscription,
//!        whose `TaskHandle::is_closed` locks H (src/scheduler.rs:215-217).
//!    Order:  ML -> U   resp.   ML -> H.
//!
//! (`unsubscribe` avoids the inversion: it takes the vector out and releases ML
//! before touching the members, src/subscription.rs:82-90. `is_closed` does not.)

use rxrust::prelude::*;
use std::{
  sync::{mpsc, Arc, Mutex},
  thread,
  time::Duration,
};

const WINDOW: Duration = Duration::from_millis(600);
const PATIENCE: Duration = Duration::from_secs(5);

/// SubjectThreads + flat_map_threads only; two plain threads.
#[test]
fn next_and_is_closed_deadlock_on_flat_map_threads() {
  let (in_window_tx, in_window_rx) = mpsc::channel::<()>();
  let in_window_tx = Arc::new(Mutex::new(in_window_tx));

  let outer = SubjectThreads::<i32, std::convert::Infallible>::default();
  let subscription = outer
    .clone()
    .flat_map_threads(move |v: i32| {
      let in_window_tx = in_window_tx.clone();
      observable::of(v).tap(move |_| {
        // the inner observable is being subscribed right now, from inside
        // `outer.next`; only widen the window, do not touch the pipeline
        in_window_tx.lock().unwrap().send(()).unwrap();
        thread::sleep(WINDOW);
      })
    })
    .subscribe(|_: i32| {});

  // thread A: one emission
  let (next_returned_tx, next_returned_rx) = mpsc::channel::<()>();
  let mut producer = outer.clone();
  thread::spawn(move || {
    producer.next(7);
    let _ = next_returned_tx.send(());
  });

  in_window_rx
    .recv_timeout(PATIENCE)
    .expect("inner observable was never subscribed");

  // thread B: a read-only question
  let (answer_tx, answer_rx) = mpsc::channel::<bool>();
  thread::spawn(move || {
    let closed = subscription.is_closed();
    let _ = answer_tx.send(closed);
  });

  let answer = answer_rx.recv_timeout(PATIENCE);
  let next_returned = next_returned_rx.recv_timeout(PATIENCE);
  assert!(
    next_returned.is_ok() && answer.is_ok(),
    "deadlock: SubjectThreads::next returned: {}, Subscription::is_closed \
     returned: {} ({:?} after the emission started)",
    next_returned.is_ok(),
    answer.is_ok(),
    WINDOW + PATIENCE + PATIENCE,
  );
}

/// concat_map_threads over delay_threads inner observables on a thread pool:
/// the pool worker delivering the first inner observable's completion blocks
/// forever (and with it the worker thread of the pool).
#[test]
fn delivery_and_is_closed_deadlock_on_concat_map_threads() {
  let pool = FuturesThreadPoolScheduler::builder()
    .pool_size(2)
    .create()
    .unwrap();

  let (in_window_tx, in_window_rx) = mpsc::channel::<()>();
  let in_window_tx = Arc::new(Mutex::new(in_window_tx));

  let p = pool.clone();
  let subscription = observable::from_iter(vec![1, 2])
    .concat_map_threads(move |v: i32| {
      let in_window_tx = in_window_tx.clone();
      observable::of(v)
        .tap(move |v| {
          if *v == 2 {
            // The second inner observable is being subscribed right now, from
            // inside the first one's `delay_complete` task.
            in_window_tx.lock().unwrap().send(()).unwrap();
            thread::sleep(WINDOW);
          }
        })
        // nothing to deliver: only the delayed `complete` task exists
        .filter(|_| false)
        .delay_threads(Duration::from_millis(30), p.clone())
    })
    .subscribe(|_: i32| {});

  // wait until the pool worker is inside the window (holding H, before ML)
  in_window_rx
    .recv_timeout(PATIENCE)
    .expect("second inner observable was never subscribed");

  let (answer_tx, answer_rx) = mpsc::channel::<bool>();
  thread::spawn(move || {
    let closed = subscription.is_closed();
    let _ = answer_tx.send(closed);
  });

  let answer = answer_rx.recv_timeout(PATIENCE);
  assert!(
    answer.is_ok(),
    "deadlock: Subscription::is_closed() did not return within {:?}; the \
     pool worker delivering the first inner observable's completion is stuck \
     in MultiSubscriptionThreads::append",
    PATIENCE
  );
}

/// Control (passes): the very same interleaving with `unsubscribe()` in place
/// of `is_closed()` returns on both threads, so the sleeping `tap` alone is not
/// what blocks test 1.
#[test]
fn control_next_and_unsubscribe_return() {
  let (in_window_tx, in_window_rx) = mpsc::channel::<()>();
  let in_window_tx = Arc::new(Mutex::new(in_window_tx));

  let outer = SubjectThreads::<i32, std::convert::Infallible>::default();
  let subscription = outer
    .clone()
    .flat_map_threads(move |v: i32| {
      let in_window_tx = in_window_tx.clone();
      observable::of(v).tap(move |_| {
        in_window_tx.lock().unwrap().send(()).unwrap();
        thread::sleep(WINDOW);
      })
    })
    .subscribe(|_: i32| {});

  let (next_returned_tx, next_returned_rx) = mpsc::channel::<()>();
  let mut producer = outer.clone();
  thread::spawn(move || {
    producer.next(7);
    let _ = next_returned_tx.send(());
  });
  in_window_rx.recv_timeout(PATIENCE).unwrap();

  let (answer_tx, answer_rx) = mpsc::channel::<()>();
  thread::spawn(move || {
    subscription.unsubscribe();
    let _ = answer_tx.send(());
  });

  assert!(answer_rx.recv_timeout(PATIENCE).is_ok());
  assert!(next_returned_rx.recv_timeout(PATIENCE).is_ok());
}
