//! AUDIT A2 / finding 1 -- property C05
//!
//! Violated clauses (C05):
//!   "concat_all ... deliver every item of every inner observable exactly
//!    once ... and complete exactly when the outer stream and all inner
//!    streams have completed. This holds for any mix of synchronous and
//!    asynchronous inner observables and any interleaving of their events,
//!    without panicking or blocking."
//!   quantifier: "each inner either cold-synchronous ... or hot (driven
//!    later) x ... all interleavings of outer events, inner events and inner
//!    completions"
//!
//! Interleaving: outer emits the hot inners A, B and then C and completes;
//! B completes while it is still *waiting for its slot* (A is running);
//! then A completes; then C emits / completes.
//!
//! Mechanism:
//!   * src/ops/merge_all.rs:205-220 -- with the limit reached the inner
//!     observable is not subscribed, only a closure that will subscribe it
//!     later is queued.  The moment at which a queued inner is subscribed is
//!     therefore chosen by the operator, not by the caller.
//!   * src/ops/merge_all.rs:167-171 -- A's completion pops B's closure and
//!     subscribes B *now*; the slot (`subscribed`) stays taken on behalf of B.
//!   * src/subject.rs:180-187 -- `complete()` (and `error()`, 171-178) of a
//!     Subject only `take()`s the `observers` vector; the `chamber` stays
//!     `Some(empty)`.
//!   * src/subject.rs:230-238 -- `actual_subscribe` on such a terminated
//!     Subject therefore pushes the new observer into the chamber and returns;
//!     `load()` (src/subject.rs:129-133, called from next/error/complete) never moves it anywhere because
//!     `observers` is `None`.  The late subscriber gets neither `complete`
//!     nor `error`, ever.
//!   => B's InnerObserver never completes, B keeps the only slot for ever, C
//!      (and every inner behind it, hot or cold) is never subscribed, its
//!      items are lost and the flattened stream never completes although the
//!      outer stream and every inner stream have completed.
//!   The same happens with merge_all(n) for any finite n, with
//!   concat_map / concat_all_threads / merge_all_threads (SubjectThreads has
//!   the same code), with a BehaviorSubject inner, and with an inner that is a
//!   `share()`d cold observable subscribed a second time (the second
//!   subscription lands on the already completed inner Subject).
use rxrust::ops::box_it::BoxOp;
use rxrust::prelude::*;
use std::{
  cell::RefCell,
  convert::Infallible,
  rc::Rc,
  sync::{Arc, Mutex},
};

/// all inners hot (plain `Subject`s), local form
#[test]
fn concat_all_hot_inner_completed_while_queued_local() {
  let out = Rc::new(RefCell::new(Vec::<i32>::new()));
  let done = Rc::new(RefCell::new(false));

  let mut outer = Subject::<Subject<'static, i32, Infallible>, Infallible>::default();
  let mut a = Subject::<i32, Infallible>::default();
  let b = Subject::<i32, Infallible>::default();
  let mut c = Subject::<i32, Infallible>::default();
  {
    let out = out.clone();
    let done = done.clone();
    outer
      .clone()
      .concat_all()
      .on_complete(move || *done.borrow_mut() = true)
      .subscribe(move |v| out.borrow_mut().push(v));
  }
  outer.next(a.clone()); // subscribed at once
  outer.next(b.clone()); // queued
  outer.next(c.clone()); // queued
  outer.complete();

  a.next(1);
  b.complete(); // B ends while still waiting for its slot
  a.next(2);
  a.complete(); // the operator subscribes B now
  // every stream in front of C has completed: C must be the running inner
  c.next(3);
  c.complete();

  // the outer stream and all inner streams have completed
  assert_eq!(
    *out.borrow(),
    vec![1, 2, 3],
    "C's item, emitted after A and B had both completed, was not delivered"
  );
  assert!(
    *done.borrow(),
    "outer and all inner streams have completed but concat_all has not"
  );
}

/// the inner stuck behind B is cold-synchronous: its items cannot be said to
/// have been "missed because it is hot"
#[test]
fn concat_all_cold_inner_behind_completed_hot_inner_local() {
  let out = Rc::new(RefCell::new(Vec::<i32>::new()));
  let done = Rc::new(RefCell::new(false));

  let mut a = Subject::<i32, Infallible>::default();
  let b = Subject::<i32, Infallible>::default();
  let inners: Vec<BoxOp<'static, i32, Infallible>> = vec![
    a.clone().box_it(),
    b.clone().box_it(),
    observable::from_iter(vec![10, 11]).box_it(),
  ];
  {
    let out = out.clone();
    let done = done.clone();
    observable::from_iter(inners)
      .concat_all()
      .on_complete(move || *done.borrow_mut() = true)
      .subscribe(move |v| out.borrow_mut().push(v));
  }
  a.next(1);
  b.complete();
  a.complete();

  assert_eq!(
    *out.borrow(),
    vec![1, 10, 11],
    "the items of the cold inner behind B were never delivered"
  );
  assert!(*done.borrow(), "concat_all never completed");
}

/// `_threads` form, same interleaving (single thread, nothing racy)
#[test]
fn concat_all_hot_inner_completed_while_queued_threads() {
  let out = Arc::new(Mutex::new(Vec::<i32>::new()));
  let done = Arc::new(Mutex::new(false));

  let mut outer =
    SubjectThreads::<SubjectThreads<i32, Infallible>, Infallible>::default();
  let mut a = SubjectThreads::<i32, Infallible>::default();
  let b = SubjectThreads::<i32, Infallible>::default();
  let mut c = SubjectThreads::<i32, Infallible>::default();
  {
    let out = out.clone();
    let done = done.clone();
    outer
      .clone()
      .concat_all_threads()
      .on_complete(move || *done.lock().unwrap() = true)
      .subscribe(move |v| out.lock().unwrap().push(v));
  }
  outer.next(a.clone());
  outer.next(b.clone());
  outer.next(c.clone());
  outer.complete();

  a.next(1);
  b.complete();
  a.complete();
  c.next(3);
  c.complete();

  assert_eq!(*out.lock().unwrap(), vec![1, 3]);
  assert!(*done.lock().unwrap(), "concat_all_threads never completed");
}
