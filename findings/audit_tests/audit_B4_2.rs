//! AUDIT B4 / finding 2 - property C14, clause
//!
//!   "Whenever the source has terminated, these futures, streams and
//!    `wait_for_end` become ready rather than staying pending forever, under
//!    every interleaving of the producing and the waiting side."
//!
//! SCOPE NOTE (read before triaging): the quantifier of C14 speaks of "one
//! producer thread with one waiting thread", and its state anchor calls
//! `CompleteStatus.waker` "the waker of the single waiter". This test uses TWO
//! waiting threads on one status. Nothing in the public API restricts
//! `wait_for_end` to one caller - the status is handed out as an
//! `Arc<CompleteStatus>` and `wait_for_end(this: Arc<Self>)` takes a clone of
//! it - so the hang below is a genuine defect of the shipped code, but it is
//! outside the literal one-waiter quantifier. With a single waiter I found no
//! interleaving that loses the wake-up (the re-check after `register`,
//! src/ops/complete_status.rs:129-136, closes that window).
//!
//! Mechanism
//!  * `CompleteStatus` owns exactly one `futures::task::AtomicWaker`
//!    (src/ops/complete_status.rs:17-20).
//!  * every `wait_for_end` builds its own `StatusFuture` and `block_on`s it
//!    (lines 103-115); `StatusFuture::poll` does
//!    `self.0.waker.register(cx.waker())` (line 129). `AtomicWaker::register`
//!    *replaces* the previously registered waker.
//!  * the terminal (`StatusObserver::complete` / `error`, lines 66-76) stores
//!    the flag and calls `waker.wake()` once: only the waiter that registered
//!    last is unparked. Every earlier waiter stays parked inside `block_on`
//!    forever although `is_closed()` is true.
//!
//! The interleaving is forced with sleeps of 300 ms between the steps; the
//! verdict is taken 5 s after the source completed.

use rxrust::{ops::complete_status::CompleteStatus, prelude::*};
use std::{convert::Infallible, sync::mpsc, thread, time::Duration};

#[test]
fn every_thread_in_wait_for_end_returns_once_the_source_completed() {
  let mut source = SubjectThreads::<i32, Infallible>::default();
  let (o, status) = source.clone().complete_status();
  o.subscribe(|_| {});

  let (tx, rx) = mpsc::channel::<&'static str>();

  // waiter A parks first ...
  let (tx_a, st_a) = (tx.clone(), status.clone());
  thread::spawn(move || {
    CompleteStatus::wait_for_end(st_a);
    let _ = tx_a.send("A");
  });
  thread::sleep(Duration::from_millis(300));

  // ... then waiter B parks on the same status ...
  let (tx_b, st_b) = (tx, status.clone());
  thread::spawn(move || {
    CompleteStatus::wait_for_end(st_b);
    let _ = tx_b.send("B");
  });
  thread::sleep(Duration::from_millis(300));

  // ... then the source terminates.
  source.next(1);
  source.complete();
  assert!(status.is_completed(), "the status itself reports the completion");

  let mut returned = vec![];
  while let Ok(who) = rx.recv_timeout(Duration::from_secs(5)) {
    returned.push(who);
    if returned.len() == 2 {
      break;
    }
  }
  returned.sort();
  assert_eq!(
    returned,
    vec!["A", "B"],
    "C14: the source has completed (is_completed() == true), yet a thread \
     blocked in wait_for_end was never released"
  );
}
