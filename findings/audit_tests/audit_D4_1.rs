//! AUDIT D4, finding 1 -- property C12 (BehaviorSubject hands every new
//! subscriber the current value first).
//!
//! Violated clause:
//!   "A new subscriber of a BehaviorSubject first receives the most recent
//!    value passed to any clone of it (or the initial value if none), THEN
//!    EVERY LATER ITEM EXACTLY ONCE; `peek()` always returns that most recent
//!    value".
//!
//! Program (local form, single thread, no scheduler): a subscriber that
//! normalises the state -- whenever it sees a negative value it emits 0 into
//! the same BehaviorSubject (through a clone).  It subscribes while the
//! current value is -1.
//!
//! Mechanism: `BehaviorSubject::actual_subscribe`
//! (src/subject/behavior_subject.rs:88-95) does, in this order,
//!   1. `let value = self.value.rc_deref().clone();`   (line 92)
//!   2. `observer.next(value);`                         (line 93)
//!   3. `self.subject.actual_subscribe(observer)`       (line 94; pushes the
//!      observer to the inner subject's chamber, src/subject.rs:230-234)
//! so during its first `next` the new subscriber is not yet known to the
//! inner subject.  Emitting from inside that first `next` is explicitly meant
//! to work: the comment at behavior_subject.rs:89-91 (fix b528783) says "a new
//! subscriber that subscribes to, peeks at or EMITS INTO this subject again
//! from inside its first `next`".  It no longer panics, but the emission
//! (`BehaviorSubject::next`, behavior_subject.rs:26-29: store into the cell,
//! then broadcast through `Subject::next`, src/subject.rs:162-169) reaches only
//! the subscribers already in observers/chamber.  The emitting subscriber
//! joins at step 3, after the broadcast, and nothing replays the item: it has
//! received -1, the item 0 was passed to the subject after that, every other
//! subscriber gets 0, `peek()` says 0 -- and the new subscriber never sees 0.
//! Its view of the "current value" stays stale until somebody emits again.
//!
//! (The same pipeline in RxJS delivers 0 to the new subscriber, because the
//! subscriber is registered before it is handed the current value.)

use rxrust::prelude::*;
use std::cell::RefCell;
use std::convert::Infallible;
use std::rc::Rc;

#[test]
fn new_subscriber_emitting_from_its_first_next_misses_that_item() {
  let bs = BehaviorSubject::<i32, Subject<'_, i32, Infallible>>::new(-1);

  // an earlier, passive subscriber: witnesses what the subject really emitted
  let witness = Rc::new(RefCell::new(vec![]));
  let w = witness.clone();
  bs.clone().subscribe(move |v| w.borrow_mut().push(v));

  // the new subscriber: clamps negative states to 0
  let seen = Rc::new(RefCell::new(vec![]));
  let s = seen.clone();
  let mut emitter = bs.clone();
  bs.clone().subscribe(move |v| {
    s.borrow_mut().push(v);
    if v < 0 {
      emitter.next(0);
    }
  });

  // the item 0 was passed to the subject and is its most recent value ...
  assert_eq!(bs.peek(), 0);
  // ... and the earlier subscriber got the initial value and then 0
  assert_eq!(*witness.borrow(), vec![-1, 0]);

  // one more ordinary emission, so that "later items" are not in doubt
  bs.clone().next(7);
  assert_eq!(*witness.borrow(), vec![-1, 0, 7]);

  // C12: the new subscriber got -1 first, so it must get every later item
  // (0, then 7) exactly once.
  assert_eq!(
    *seen.borrow(),
    vec![-1, 0, 7],
    "the new subscriber received its first value (-1) and 7, but never the \
     item 0 that was passed to the subject in between (peek() returned 0 and \
     the other subscriber saw [-1, 0, 7])"
  );
}
