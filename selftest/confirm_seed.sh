#!/bin/bash
# Confirm a sub-agent's seeded change in its scratch worktree:
#   selftest/confirm_seed.sh <ID>   (worktree /tmp/wt_<ID>, patch.diff, tests/demo_<ID>.rs)
# - with the change: lib + doc tests pass, demo fails;  without it: demo passes.
id="$1"; wt="/tmp/wt_$id"
cd "$wt" || exit 2
git diff -- src > /tmp/seed_$id.diff
[ -s /tmp/seed_$id.diff ] || cp patch.diff /tmp/seed_$id.diff
git checkout -q -- src
git apply /tmp/seed_$id.diff || { echo "patch does not apply"; exit 2; }
echo "== with change: existing tests"
cargo test --offline --lib 2>&1 | grep -E 'test result|FAILED|failed' | head -5
cargo test --offline --doc 2>&1 | grep -E 'test result' | head -2
echo "== with change: demo (expect FAIL)"
cargo test --offline --test demo_$id 2>&1 | grep -E 'test result|panicked' | head -3
git checkout -q -- src
echo "== without change: demo (expect ok)"
cargo test --offline --test demo_$id 2>&1 | grep -E 'test result|panicked' | head -3
git apply /tmp/seed_$id.diff
echo "patch saved as /tmp/seed_$id.diff ($(grep -c '^[+-][^+-]' /tmp/seed_$id.diff) changed lines)"
