#!/bin/bash
# Determinism self-test: for every claimed property, run N seeded runs per
# scenario in separate processes with 16, 1 and 5 workers (and twice with 16)
# and compare the digests of the per-run (case, behaviour) hashes.
cd "$(dirname "$0")/.."
N="${1:-3000}"
./check build || exit 2
BIN=rxsim/target/release/rxsim
fail=0
for id in $(python3 -c "import json;print(' '.join(c['property_id'] for c in json.load(open('MANIFEST.json'))['checks']))"); do
  a=$(VERIF_WORKERS=16 $BIN hashes $id $N)
  b=$(VERIF_WORKERS=1  $BIN hashes $id $N)
  c=$(VERIF_WORKERS=5  $BIN hashes $id $N)
  d=$(VERIF_WORKERS=16 $BIN hashes $id $N)
  if [ "$a" == "$b" ] && [ "$a" == "$c" ] && [ "$a" == "$d" ]; then
    echo "$id deterministic: $(echo "$a" | tr '\n' ';')"
  else
    echo "$id NONDETERMINISTIC"; diff <(echo "$a") <(echo "$b"); diff <(echo "$a") <(echo "$c"); diff <(echo "$a") <(echo "$d"); fail=1
  fi
done
exit $fail
