#!/bin/bash
# Run every claimed check once: selftest/all.sh [quick|thorough] ; honours VERIF_SEED / VERIF_SCALE
cd "$(dirname "$0")/.."
tier="${1:-quick}"
./check build || exit 2
rc=0
for id in $(python3 -c "import json;print(' '.join(c['property_id'] for c in json.load(open('MANIFEST.json'))['checks']))"); do
  out=$(rxsim/target/release/rxsim check "$id" "$tier" 2>&1); code=$?
  echo "$out" | grep -E "^(C[0-9]+ (held|VIOLATED)|VIOLATION|HARNESS)" 
  if [ $code -ne 0 ]; then rc=$code; echo "  -> exit $code for $id"; fi
done
exit $rc
