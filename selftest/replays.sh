#!/bin/bash
# Every replay file of an OPEN known finding must still reproduce its violation
# (./check replay exits 1); every other file under findings/ belongs to a
# repaired defect and must no longer reproduce (exit 0). Exit 2 (diverged /
# unreadable) is a stale replay file either way.
cd "$(dirname "$0")/.."
./check build || exit 2
open=$(python3 - <<'P'
import json,re
k=json.load(open('known_findings.json'))
s=set()
for f in k['findings']:
    if f['status']=='open':
        s.update(re.findall(r'findings/[\w\-\.]+\.json', f['what']))
print(' '.join(sorted(s)))
P
)
bad=0
for f in findings/*.json; do
  rxsim/target/release/rxsim replay "$PWD/$f" >/dev/null 2>&1; code=$?
  if echo " $open " | grep -q " $f "; then want=1; else want=0; fi
  if [ $code -ne $want ]; then echo "$f: exit $code, expected $want"; bad=1; fi
done
[ $bad -eq 0 ] && echo "all replay files behave as recorded ($(ls findings/*.json | wc -l) files, $(echo $open | wc -w) of open findings)"
exit $bad
