#!/bin/bash
# selftest/save_seed.sh <ID> <name> "<needs>" "<caught-by summary>"
id="$1"; name="$2"; needs="$3"; caught="$4"
d=/verif/seeded/$name; mkdir -p $d
cp /tmp/seed_$id.diff $d/patch.diff
cp /tmp/wt_$id/tests/demo_$id.rs $d/ 2>/dev/null
python3 - "$id" "$name" "$needs" "$caught" <<'PY'
import json,sys
id,name,needs,caught=sys.argv[1:5]
import re
prop=re.sub(r"[a-z]$","",id)
json.dump({"breaks_property":prop,"needs_to_manifest":needs,"source":"independent sub-agent given only the property text and a scratch worktree",
 "confirmed":"selftest/confirm_seed.sh %s: with the change the 255 lib tests and 57 doc tests pass and the demonstration fails; without it the demonstration passes"%id,
 "checks_run":"selftest/try_patch.sh seeded/%s/patch.diff (applies to /repo, runs the quick tier, reverts)"%name,
 "result":caught}, open('/verif/seeded/%s/meta.json'%name,'w'), indent=1)
PY
echo saved $d
