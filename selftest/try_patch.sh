#!/bin/bash
# Apply a seeded change to /repo, run the named checks (quick tier), undo it.
#   selftest/try_patch.sh <patch.diff> [ID ...]      (default: all claimed checks)
# Prints one line per check: CAUGHT (exit 1), missed (exit 0) or ERROR (exit 2).
set -u
cd "$(dirname "$0")/.."
patch="$1"; shift
ids="$*"
[ -z "$ids" ] && ids=$(python3 -c "import json;print(' '.join(c['property_id'] for c in json.load(open('MANIFEST.json'))['checks']))")
if ! git -C /repo diff --quiet; then echo "/repo has uncommitted changes; refusing"; exit 2; fi
# evidence and replay files of runs against a patched tree must not replace the
# committed ones: write them to a scratch directory
SCRATCH=$(mktemp -d /tmp/rxsim_scratch.XXXXXX); cp known_findings.json "$SCRATCH/"; export VERIF_DIR="$SCRATCH"
git -C /repo apply "$patch" || { echo "patch does not apply"; exit 2; }
trap 'git -C /repo checkout -- . ; rm -rf "$SCRATCH"; VERIF_DIR= ./check build >/dev/null 2>&1' EXIT
if ! ./check build; then echo "BUILD FAILED with the patch"; exit 2; fi
for id in $ids; do
  out=$(VERIF_SCALE="${VERIF_SCALE:-1}" rxsim/target/release/rxsim check "$id" "${TIER:-quick}" 2>&1); code=$?
  case $code in
    0) echo "$id missed" ;;
    1) echo "$id CAUGHT: $(echo "$out" | grep -m1 '^violation:' | cut -c1-200)"; echo "$out" | grep -A2 -m1 '^violation:' | tail -2 | cut -c1-300 ;;
    *) echo "$id ERROR (exit $code): $(echo "$out" | tail -2 | tr '\n' ' ' | cut -c1-300)" ;;
  esac
done
