#!/bin/bash
# Sensitivity regression: every seeded change under /verif/seeded must be caught
# by the quick tier of the check of the property it breaks (exit 1), except
# those whose meta.json says they do not break the property as stated
# (`check_with` names the property whose check is run when the change turned out
# to break a different property than the one the sub-agent was given).
#   selftest/mutants.sh [name-filter]
cd "$(dirname "$0")/.."
if ! git -C /repo diff --quiet; then echo "/repo has uncommitted changes; refusing"; exit 2; fi
# evidence and replay files of runs against a patched tree must not replace the
# committed ones: write them to a scratch directory
SCRATCH=$(mktemp -d /tmp/rxsim_scratch.XXXXXX); cp known_findings.json "$SCRATCH/"; export VERIF_DIR="$SCRATCH"
trap 'git -C /repo checkout -- . ; rm -rf "$SCRATCH"; VERIF_DIR= ./check build >/dev/null 2>&1' EXIT
caught=0; missed=0; total=0
for d in seeded/*${1:-}*/; do
  name=$(basename "$d")
  prop=$(python3 -c "import json;m=json.load(open('$d/meta.json'));print(m.get('check_with') or m['breaks_property'])")
  exempt=$(python3 -c "import json;print('yes' if 'does not break' in json.load(open('$d/meta.json'))['result'] else 'no')")
  obsolete=$(python3 -c "import json;print(json.load(open('$d/meta.json')).get('obsolete') or '')")
  if [ -n "$obsolete" ]; then echo "$name: skipped ($(echo "$obsolete" | cut -c1-110)...)"; continue; fi
  git -C /repo apply "$PWD/$d/patch.diff" || { echo "$name: patch does not apply"; missed=$((missed+1)); continue; }
  if ! ./check build >/dev/null 2>&1; then echo "$name: BUILD FAILED"; git -C /repo checkout -- .; missed=$((missed+1)); continue; fi
  out=$(rxsim/target/release/rxsim check "$prop" quick 2>&1); code=$?
  git -C /repo checkout -- .
  total=$((total+1))
  if [ $code -eq 1 ]; then caught=$((caught+1)); echo "$name: CAUGHT by $prop ($(echo "$out" | grep -m1 '^violation:' | sed 's/violation: //' | cut -c1-110))";
  elif [ "$exempt" = "yes" ]; then echo "$name: not caught by $prop (exempt: does not break the property as stated)";
  else missed=$((missed+1)); echo "$name: MISSED by $prop (exit $code)"; fi
done
echo "seeded changes: $total, caught: $caught, missed: $missed"
[ $missed -eq 0 ]
